#!/bin/bash
# Runs the repository's pinned test suite (the command recorded in
# /root/.vp/BASELINE.json, guard off = no -overlay) and compares with the
# stable-pass list. Exit 0 iff every stable-pass test passes.
cd ${REPO_DIR:-/repo} || exit 2
OUT=$(mktemp /tmp/verif-baseline-XXXX.json)
go test -mod=mod -json -vet=off -count=1 -timeout 25m ./... > $OUT 2>/dev/null
python3 - $OUT <<'PY'
import json,sys
base=json.load(open('/root/.vp/BASELINE.json'))
want=set(base['stable_pass'])
got={}
for line in open(sys.argv[1]):
    try: e=json.loads(line)
    except Exception: continue
    if e.get('Test') and e.get('Action') in ('pass','fail','skip'):
        got[e['Package']+'::'+e['Test']]=e['Action']
missing=sorted(t for t in want if got.get(t)!='pass')
print(f"baseline: {sum(1 for t in want if got.get(t)=='pass')}/{len(want)} stable-pass tests pass")
for t in missing[:40]: print("  NOT PASSING:", t, got.get(t))
sys.exit(1 if missing else 0)
PY
rc=$?
rm -f $OUT
exit $rc
