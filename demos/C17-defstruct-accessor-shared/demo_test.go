package demo

// Demonstration, without the simulator, of the defect behind
// C17-defstruct-accessor-shared: the accessor of a defstruct slot was one
// function object shared by every place that calls it. Fails before fix
// b3cfb94, passes after it (also under go test -race).

import (
	"fmt"
	"testing"

	"github.com/ohler55/slip"
	_ "github.com/ohler55/slip/pkg"
)

func eval(src string) (out string) {
	defer func() {
		if r := recover(); r != nil {
			out = fmt.Sprintf("PANIC %v", r)
		}
	}()
	s := slip.NewScope()
	var v slip.Object
	for _, o := range slip.ReadString(src, s) {
		v = o.Eval(s, 0)
	}
	return slip.ObjectString(v)
}

func TestAccessorPerCallSite(t *testing.T) {
	got := eval(`(defstruct pu a) (defun fx (p) (pu-a p)) (defun fy (q) (list 'y (pu-a q)))
 (let ((x (make-pu :a 1)) (y (make-pu :a 2))) (list (fx x) (fy y) (fx x)))`)
	if got != "(1 (y 2) 1)" {
		t.Fatalf("got %s, want (1 (y 2) 1)", got)
	}
}

func TestAccessorFromTwoRoutines(t *testing.T) {
	got := eval(`(defstruct pw a)
 (let ((done (make-channel 2)) (x (make-pw :a 1)) (y (make-pw :a 2)))
   (run (let ((n 0)) (dotimes (i 20000) (setq n (+ n (pw-a x)))) (channel-push done n)))
   (run (let ((n 0)) (dotimes (i 20000) (setq n (+ n (pw-a y)))) (channel-push done n)))
   (+ (channel-pop done) (channel-pop done)))`)
	if got != "60000" {
		t.Fatalf("got %s, want 60000", got)
	}
}
