package racedemo

import (
	"fmt"
	"strings"
	"testing"

	"github.com/ohler55/slip"
	_ "github.com/ohler55/slip/pkg"
)

// Routines define classes (distinct names) while others look classes up:
// RegisterClass, FindClass and AllClasses used Package.classes without the
// package mutex (EachClass takes it).
func TestDefclass(t *testing.T) {
	var b strings.Builder
	b.WriteString("(let ((fin (make-channel 64)))\n")
	for r := 0; r < 3; r++ {
		b.WriteString(" (run (progn")
		for i := 0; i < 400; i++ {
			fmt.Fprintf(&b, " (defclass kl-%d-%d () ((a :initform 1)))", r, i)
		}
		fmt.Fprintf(&b, " (channel-push fin %d)))\n", r)
	}
	b.WriteString(" (run (progn (dotimes (i 200000) (find-class 'standard-object)) (channel-push fin 9)))\n")
	b.WriteString(" (dotimes (i 4) (channel-pop fin)) 'done)")
	scope := slip.NewScope()
	code := slip.ReadString(b.String(), scope)
	res := code.Eval(scope, nil)
	t.Logf("result %v", res)
}
