package racedemo

import (
	"testing"

	"github.com/ohler55/slip"
	_ "github.com/ohler55/slip/pkg"
)

// Routines that evaluate the same code for the first time at the same time.
// Function.Eval compiles a list argument on first use and stores the compiled
// form back into f.Args[i] (an interface value, two words) while another
// routine may be reading the same slot.
func TestLazyCompile(t *testing.T) {
	src := `(let ((fin (make-channel 8)))
  (dotimes (r 6)
    (run (progn (list (+ 1 2) (car (list 1 2)) (cdr (list 3 (+ 4 5))) (if (< 1 2) (list 1) (list 2)))
                (channel-push fin r))))
  (dotimes (i 6) (channel-pop fin))
  'ok)`
	for round := 0; round < 200000; round++ {
		scope := slip.NewScope()
		code := slip.ReadString(src, scope) // fresh, not yet compiled code
		if res := code.Eval(scope, nil); res != slip.Symbol("ok") {
			t.Fatalf("round %d: %v", round, res)
		}
	}
}
