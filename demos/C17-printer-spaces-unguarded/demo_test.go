package racedemo

import (
	"sync"
	"testing"

	"github.com/ohler55/slip"
	_ "github.com/ohler55/slip/pkg"
)

// Four routines pretty-print nested lists at the same time, each evaluating
// its own copy of the code (so that the known race on shared code objects,
// finding C17-function-args-lazy-compile, stays out of the picture). The
// pretty printer kept its indentation in a package-level byte slice that it
// grew the first time a deeper indentation was needed, with no
// synchronisation: one routine assigned the slice (three words) while another
// sliced it. Run with the race detector:
//
//	go test -race -vet=off -count=1 ./test/racedemo/
//
// Before the repair it reports data races at printer.go (appendTree); with
// the repair it passes.
func TestPrettyPrintInRoutines(t *testing.T) {
	src := `(dotimes (i 200)
  (write-to-string '(defun f (a b) (let ((x (list a b (list a (list b (list a (list b (list a b "a long enough string to need a new line")))))))) (when x (print x))))
                   :pretty t :right-margin 30))`
	var wg sync.WaitGroup
	for r := 0; r < 4; r++ {
		scope := slip.NewScope()
		code := slip.ReadString(src, scope) // read one after the other, evaluated together
		wg.Add(1)
		go func() {
			defer wg.Done()
			_ = code.Eval(scope, nil)
		}()
	}
	wg.Wait()
}
