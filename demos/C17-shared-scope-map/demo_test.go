package racedemo

import (
	"testing"

	"github.com/ohler55/slip"
	_ "github.com/ohler55/slip/pkg"
)

func TestCounter(t *testing.T) {
	src := `(let ((m1 (make-mutex)) (m2 (make-mutex)) (a 0) (b 0) (fin (make-channel 64)))
  (run (progn (dotimes (i 300000) (with-mutex-lock m1 (setq a (+ a 1)))) (channel-push fin 1)))
  (run (progn (dotimes (i 300000) (with-mutex-lock m1 (setq a (+ a 1)))) (channel-push fin 1)))
  (run (progn (dotimes (i 300000) (with-mutex-lock m2 (setq b (+ b 1)))) (channel-push fin 2)))
  (run (progn (dotimes (i 300000) (with-mutex-lock m2 (setq b (+ b 1)))) (channel-push fin 2)))
  (dotimes (i 4) (channel-pop fin))
  (list a b))`
	scope := slip.NewScope()
	code := slip.ReadString(src, scope)
	res := code.Eval(scope, nil)
	t.Logf("result %v", res)
}
