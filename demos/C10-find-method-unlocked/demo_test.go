package racedemo

import (
	"testing"

	"github.com/ohler55/slip"
	_ "github.com/ohler55/slip/pkg"
)

// One routine adds and removes a method of a generic function while another
// looks methods of the same generic function up with find-method, which read
// the method table without the generic function's mutex.
func TestFindMethod(t *testing.T) {
	src := `(progn
  (defgeneric fm-demo (a))
  (defmethod fm-demo ((a t)) 'base)
  (let ((fin (make-channel 64)))
    (run (progn (dotimes (i 50000)
                  (defmethod fm-demo ((a fixnum)) 'fix)
                  (remove-method 'fm-demo (find-method 'fm-demo nil '(fixnum))))
                (channel-push fin 1)))
    (run (progn (dotimes (i 200000) (find-method 'fm-demo nil '(t))) (channel-push fin 2)))
    (list (channel-pop fin) (channel-pop fin))))`
	scope := slip.NewScope()
	code := slip.ReadString(src, scope)
	res := code.Eval(scope, nil)
	t.Logf("result %v", res)
}
