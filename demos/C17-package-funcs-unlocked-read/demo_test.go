package racedemo

import (
	"testing"

	"github.com/ohler55/slip"
	_ "github.com/ohler55/slip/pkg"
)

// One routine defines functions while two others call functions by name:
// FindFunc read Package.funcs without the package mutex that Define and
// DefLambda hold while storing into it.
func TestDefun(t *testing.T) {
	src := `(let ((fin (make-channel 64)))
  (run (progn (dotimes (i 100000) (defun helper-a (x) (+ x 1))) (channel-push fin 1)))
  (run (progn (dotimes (i 100000) (funcall 'car '(1 2))) (channel-push fin 2)))
  (run (progn (dotimes (i 100000) (funcall 'cdr '(1 2))) (channel-push fin 2)))
  (dotimes (i 3) (channel-pop fin))
  'done)`
	scope := slip.NewScope()
	code := slip.ReadString(src, scope)
	res := code.Eval(scope, nil)
	t.Logf("result %v", res)
}
