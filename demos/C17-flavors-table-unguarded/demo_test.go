package racedemo

import (
	"fmt"
	"strings"
	"testing"

	"github.com/ohler55/slip"
	_ "github.com/ohler55/slip/pkg"
)

func TestDefflavor(t *testing.T) {
	var b strings.Builder
	b.WriteString("(let ((fin (make-channel 64)))\n")
	for r := 0; r < 4; r++ {
		b.WriteString(" (run (progn")
		for i := 0; i < 400; i++ {
			fmt.Fprintf(&b, " (defflavor fl-%d-%d (a) ())", r, i)
		}
		fmt.Fprintf(&b, " (channel-push fin %d)))\n", r)
	}
	b.WriteString(" (dotimes (i 4) (channel-pop fin)) 'done)")
	scope := slip.NewScope()
	code := slip.ReadString(b.String(), scope)
	res := code.Eval(scope, nil)
	t.Logf("result %v", res)
}
