package racedemo

import (
	"testing"

	"github.com/ohler55/slip"
	_ "github.com/ohler55/slip/pkg"
)

// One routine defines and deletes packages while another calls apropos-list:
// apropos-list took the package names first and looked each up afterwards
// without checking that it still exists.
func TestApropos(t *testing.T) {
	src := `(let ((fin (make-channel 64)))
  (run (progn (dotimes (i 3000) (defpackage "tmp-pkg-a") (delete-package "tmp-pkg-a")) (channel-push fin 1)))
  (run (progn (dotimes (i 300) (apropos-list "zzqq")) (channel-push fin 2)))
  (list (channel-pop fin) (channel-pop fin)))`
	scope := slip.NewScope()
	code := slip.ReadString(src, scope)
	res := code.Eval(scope, nil)
	t.Logf("result %v", res)
}
