package racedemo

import (
	"fmt"
	"strings"
	"testing"
	"time"

	"github.com/ohler55/slip"
	_ "github.com/ohler55/slip/pkg"
)

// Four routines define, use and delete packages with distinct names. The
// list of packages was a plain slice appended to and shifted in place with
// no lock, so a package defined a moment ago can be missing.
func TestDefpackage(t *testing.T) {
	var b strings.Builder
	b.WriteString("(let ((fin (make-channel 64)))\n")
	for r := 0; r < 4; r++ {
		b.WriteString(" (run (progn")
		for i := 0; i < 300; i++ {
			fmt.Fprintf(&b, " (defpackage \"pk-%d-%d\") (intern \"ZZ\" \"pk-%d-%d\") (delete-package \"pk-%d-%d\")", r, i, r, i, r, i)
		}
		fmt.Fprintf(&b, " (channel-push fin %d)))\n", r)
	}
	b.WriteString(" (list (channel-pop fin) (channel-pop fin) (channel-pop fin) (channel-pop fin)))")
	scope := slip.NewScope()
	code := slip.ReadString(b.String(), scope)
	done := make(chan slip.Object, 1)
	go func() { done <- code.Eval(scope, nil) }()
	select {
	case res := <-done:
		t.Logf("result %v", res)
	case <-time.After(20 * time.Second):
		t.Fatalf("a routine died (its error is printed above) so the main routine waits for ever")
	}
}
