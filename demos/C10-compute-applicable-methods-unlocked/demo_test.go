package racedemo

import (
	"testing"

	"github.com/ohler55/slip"
	_ "github.com/ohler55/slip/pkg"
)

// One routine adds and removes methods of a generic function while another
// asks compute-applicable-methods about the same generic function, which
// walked the method table without the generic function's mutex: it can find
// the entry defmethod has just inserted before its combination is filled in
// (index out of range) or read the Go map while it is written (fatal error).
func TestComputeApplicableMethods(t *testing.T) {
	src := `(progn
  (defgeneric cam-demo (a))
  (defmethod cam-demo ((a t)) 'base)
  (let ((fin (make-channel 64)))
    (run (progn (dotimes (i 50000)
                  (defmethod cam-demo :before ((a fixnum)) 'fix)
                  (remove-method 'cam-demo (find-method 'cam-demo '(:before) '(fixnum))))
                (channel-push fin 1)))
    (run (progn (dotimes (i 200000) (compute-applicable-methods 'cam-demo (list 1))) (channel-push fin 2)))
    (list (channel-pop fin) (channel-pop fin))))`
	scope := slip.NewScope()
	code := slip.ReadString(src, scope)
	res := code.Eval(scope, nil)
	t.Logf("result %v", res)
}
