package racedemo

import (
	"sync"
	"testing"

	"github.com/ohler55/slip"
	_ "github.com/ohler55/slip/pkg"
)

// Four routines call one generic function that has an :around method, each
// evaluating its own copy of the calling code with an argument of its own.
// Method.Call (and WhopLoc.Continue, Method.BoundCall) stored the scope it
// had just made for the call into the Closure field of the :around lambda -
// an object every caller shares - and Lambda.Call read the field back: the
// write the property text lists under "known unsynchronised globals to
// watch" (method.go, Wrap closure write). Run with the race detector:
//
//	go test -race -vet=off -count=1 ./test/racedemo/
//
// Before the repair it reports data races at method.go (Method.Call) and
// lambda.go (Lambda.Call); with the repair it passes.
func TestAroundMethodInRoutines(t *testing.T) {
	scope := slip.NewScope()
	_ = slip.ReadString(`(defgeneric rd-around (a))`, scope).Eval(scope, nil)
	_ = slip.ReadString(`(defmethod rd-around :around ((a t)) (list 'around (call-next-method)))`, scope).Eval(scope, nil)
	_ = slip.ReadString(`(defmethod rd-around ((a t)) a)`, scope).Eval(scope, nil)
	var wg sync.WaitGroup
	for r := 0; r < 4; r++ {
		rs := slip.NewScope()
		code := slip.ReadString(`(dotimes (i 2000) (rd-around i))`, rs)
		wg.Add(1)
		go func() {
			defer wg.Done()
			_ = code.Eval(rs, nil)
		}()
	}
	wg.Wait()
}
