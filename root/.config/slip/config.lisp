;;;; slip REPL configuration file. For help type: (help 'configuration)

