#!/bin/bash
# Runs the thorough tier of every check with several PRNG values on the
# current tree (no evidence files are written: use the checks themselves for
# that). usage: thorough_seeds.sh "<seeds>" "<properties>"
cd "$(dirname "$0")/.."
for seed in ${1:-2 3}; do
  for p in ${2:-C20 C07 C17 C02 C10}; do
    VERIF_SEED=$seed ./check $p --tier thorough --no-evidence 2>&1 | grep -v "^KNOWN-FINDING" | tail -4 | cut -c1-1500
  done
done
