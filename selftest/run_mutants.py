#!/usr/bin/env python3
"""Sensitivity self-test: applies each deliberate breakage (a patch against
/repo) to *copies* of the affected files, hands the copies to the check as
overlay replacements (/repo is never modified) and expects the property's
check to exit 1 with a VIOLATION line.

usage: run_mutants.py [--dir selftest/mutants|seeded] [--only substr] [--tier quick] [--cases N]
Writes <dir>/../results-<dirname>.json and exits 0 iff every mutant was
detected (exit 2 otherwise - never 1: a missed mutant is a weakness of the
machinery, not a violation of the property).
"""
import argparse, json, os, re, shutil, subprocess, sys, tempfile, time

VERIF = os.path.dirname(os.path.dirname(os.path.abspath(__file__)))
REPO = "/repo"


def files_in_patch(path):
    out = []
    for line in open(path, errors="replace"):
        m = re.match(r"^\+\+\+ (?:b/)?(\S+)", line)
        if m and m.group(1) != "/dev/null":
            out.append(m.group(1))
        m = re.match(r"^--- (?:a/)?(\S+)", line)
        if m and m.group(1) != "/dev/null" and m.group(1) not in out:
            out.append(m.group(1))
    return out


def main():
    ap = argparse.ArgumentParser()
    ap.add_argument("--dir", default=os.path.join(VERIF, "selftest", "mutants"))
    ap.add_argument("--only", default="")
    ap.add_argument("--tier", default="quick")
    ap.add_argument("--cases", default="")
    ap.add_argument("--props", default="", help="comma separated: run these properties' checks instead of meta.property")
    args = ap.parse_args()
    mdir = os.path.abspath(args.dir)
    results = []
    for name in sorted(os.listdir(mdir)):
        d = os.path.join(mdir, name)
        patch = os.path.join(d, "patch.diff")
        if not os.path.isfile(patch) or args.only not in name:
            continue
        meta = {}
        mp = os.path.join(d, "meta.json")
        if os.path.isfile(mp):
            meta = json.load(open(mp))
        props = [p for p in args.props.split(",") if p] or [meta.get("property", name.split("-")[0])]
        tmp = tempfile.mkdtemp(prefix="verif-mutant-")
        try:
            rels = files_in_patch(patch)
            for rel in rels:
                dst = os.path.join(tmp, rel)
                os.makedirs(os.path.dirname(dst), exist_ok=True)
                src = os.path.join(REPO, rel)
                if os.path.isfile(src):
                    shutil.copy(src, dst)
            p = subprocess.run(["patch", "-p1", "-s", "-d", tmp, "-i", patch], capture_output=True, text=True)
            if p.returncode != 0:
                results.append({"mutant": name, "status": "patch-failed", "detail": (p.stdout + p.stderr)[-400:]})
                continue
            repl = ",".join(f"{rel}={os.path.join(tmp, rel)}" for rel in rels if os.path.isfile(os.path.join(tmp, rel)))
            for prop in props:
                t0 = time.time()
                cmd = [os.path.join(VERIF, "check"), prop, "--tier", args.tier, "--replace", repl, "--no-evidence",
                       "--replays", os.path.join(tmp, "replays")]
                if args.cases:
                    cmd += ["--cases", args.cases]
                r = subprocess.run(cmd, capture_output=True, text=True)
                status = {0: "missed", 1: "detected"}.get(r.returncode, "trouble")
                lines = [l for l in (r.stdout + r.stderr).splitlines() if l.startswith("check: ") or l.startswith("VIOLATION")]
                results.append({"mutant": name, "property": prop, "status": status, "rc": r.returncode,
                                "wall_s": round(time.time() - t0, 1), "detail": lines[:4]})
                print(f"{name:60s} {prop} {status} ({time.time()-t0:.0f}s)", flush=True)
                if status == "trouble":
                    print((r.stdout + r.stderr)[-1500:])
        finally:
            shutil.rmtree(tmp, ignore_errors=True)
    out = os.path.join(VERIF, "selftest", "results-" + os.path.basename(mdir) + ".json")
    if args.only:
        out = os.path.join(VERIF, "selftest", "results-last-partial.json")
    json.dump(results, open(out, "w"), indent=1)
    bad = [r for r in results if r["status"] != "detected"]
    print(f"{len(results)-len(bad)}/{len(results)} detected")
    sys.exit(0 if not bad else 2)


if __name__ == "__main__":
    main()
