// Package lispsim is shared by the scheduler-based engines: it defines the
// Go-side recorder function (sim-emit ...) that generated Lisp programs call,
// keeps per-task traces, and classifies the conditions a form ends with.
package lispsim

import (
	"fmt"
	"strings"
	"sync/atomic"

	"github.com/ohler55/slip"
	_ "github.com/ohler55/slip/pkg" // all slip packages
	"verif/sim/simkit/sched"
)

// World is the state of one simulated run that the recorder writes to.
type World struct {
	S      *sched.Sched
	Traces map[int][]string
	// OnEmit, when set, sees every marker (task, text) as it is emitted.
	OnEmit func(task int, text string)
	// Scrub, when not empty, is removed from every marker text: the
	// per-case name suffix, which differs between processes, must not reach
	// the event log when a program reports names it has defined.
	Scrub string
	// once holds the ids (sim-once id) has been called with in this run.
	once map[string]bool
}

var cur *World

// Begin installs w as the target of sim-emit; End removes it.
func Begin(w *World) {
	if w.Traces == nil {
		w.Traces = map[int][]string{}
	}
	cur = w
}

// End removes the current world.
func End() { cur = nil }

var counter atomic.Int64

// Suffix returns a process-unique name suffix, so that cases executed by one
// worker never share a class, generic function or variable.
func Suffix() string { return fmt.Sprintf("-v%d", counter.Add(1)) }

func init() {
	slip.Define(
		func(args slip.List) slip.Object {
			f := emit{Function: slip.Function{Name: "sim-emit", Args: args}}
			f.Self = &f
			return &f
		},
		&slip.FuncDoc{
			Name:   "sim-emit",
			Args:   []*slip.DocArg{{Name: "&rest"}, {Name: "items", Type: "object"}},
			Return: "nil",
			Text:   "records a marker in the simulation's event log",
		}, &slip.UserPkg)
}

func init() {
	slip.Define(
		func(args slip.List) slip.Object {
			f := once{Function: slip.Function{Name: "sim-once", Args: args}}
			f.Self = &f
			return &f
		},
		&slip.FuncDoc{
			Name:   "sim-once",
			Args:   []*slip.DocArg{{Name: "id", Type: "object"}},
			Return: "boolean",
			Text:   "returns t the first time it is called with id in a simulated run, nil afterwards",
		}, &slip.UserPkg)
}

type once struct{ slip.Function }

func (f *once) Call(s *slip.Scope, args slip.List, depth int) slip.Object {
	w := cur
	if w == nil || len(args) != 1 {
		return nil
	}
	// per task: two routines running the same code each take their turn once
	k := slip.ObjectString(args[0])
	if w.S != nil {
		k = fmt.Sprintf("%d:%s", w.S.CurID(), k)
	}
	if w.once[k] {
		return nil
	}
	if w.once == nil {
		w.once = map[string]bool{}
	}
	w.once[k] = true
	return slip.True
}

type emit struct{ slip.Function }

func (f *emit) Call(s *slip.Scope, args slip.List, depth int) slip.Object {
	parts := make([]string, len(args))
	for i, a := range args {
		switch ta := a.(type) {
		case slip.String:
			parts[i] = string(ta)
		default:
			parts[i] = slip.ObjectString(a)
		}
	}
	text := strings.Join(parts, " ")
	if w := cur; w != nil && w.S != nil {
		if w.Scrub != "" {
			text = strings.ReplaceAll(text, w.Scrub, "")
		}
		id := w.S.CurID()
		w.Traces[id] = append(w.Traces[id], text)
		w.S.Emit("emit", text)
		if w.OnEmit != nil {
			w.OnEmit(id, text)
		}
	}
	return nil
}

// Result of evaluating a form.
type Result struct {
	Value string // printed value when the form returned
	Cond  string // most specific class of the condition it ended with ("" = returned)
	Msg   string
	Raw   slip.Object
}

// ConditionClass names the most specific class of a recovered panic value.
func ConditionClass(r any) (class, msg string) {
	switch tr := r.(type) {
	case *slip.Panic:
		if tr.Condition != nil {
			if h := tr.Condition.Hierarchy(); len(h) > 0 {
				return string(h[0]), tr.Error()
			}
		}
		return "panic", tr.Error()
	case *slip.PartialPanic:
		return "partial", tr.Error()
	case slip.Object:
		m := ""
		if in, ok := r.(interface {
			SlotValue(slip.Symbol) (slip.Object, bool)
		}); ok {
			if mv, has := in.SlotValue(slip.Symbol("message")); has {
				m = slip.ObjectString(mv)
			}
		}
		if h := tr.Hierarchy(); len(h) > 0 {
			return string(h[0]), m
		}
		return "object", m
	case error:
		return fmt.Sprintf("go-error:%T", r), tr.Error()
	}
	return fmt.Sprintf("go-panic:%T", r), fmt.Sprint(r)
}

// Eval evaluates compiled code in scope s and classifies how it ended. A
// runtime.Error (nil dereference, index out of range, concurrent map access)
// is reported with Cond "host-fault".
func Eval(code slip.Code, s *slip.Scope) (res Result) {
	defer func() {
		if r := recover(); r != nil {
			if re, ok := r.(interface{ RuntimeError() }); ok {
				_ = re
				res = Result{Cond: "host-fault", Msg: fmt.Sprint(r)}
				return
			}
			c, m := ConditionClass(r)
			res = Result{Cond: c, Msg: m}
		}
	}()
	var v slip.Object
	for _, obj := range code {
		if obj != nil {
			v = obj.Eval(s, 0)
		}
	}
	return Result{Value: slip.ObjectString(v), Raw: v}
}

// Read parses src with standard reader settings.
func Read(src string) slip.Code { return slip.ReadString(src, slip.NewScope()) }
