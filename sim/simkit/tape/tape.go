// Package tape is the only source of choice in a simulated run. In record
// mode draws come from a splitmix64 generator and are written down; in replay
// mode they are read back, and a tape that runs out yields 0, which every
// consumer treats as its simplest choice (keep running the current task, no
// fault, first alternative). Shrinking works on the recorded slice.
package tape

// Tape records or replays a sequence of bounded draws.
type Tape struct {
	state  uint64
	Rec    []uint32
	replay bool
	pos    int
	// Overrun counts draws made after a replayed tape ran out.
	Overrun int
}

// New returns a recording tape seeded with seed.
func New(seed uint64) *Tape { return &Tape{state: seed} }

// Replay returns a tape that plays rec back.
func Replay(rec []uint32) *Tape { return &Tape{Rec: rec, replay: true} }

// Mix derives a new seed from a seed and a stream index.
func Mix(seed uint64, idx uint64) uint64 {
	z := seed + 0x9e3779b97f4a7c15*(idx+1)
	z = (z ^ (z >> 30)) * 0xbf58476d1ce4e5b9
	z = (z ^ (z >> 27)) * 0x94d049bb133111eb
	return z ^ (z >> 31)
}

func (t *Tape) next() uint64 {
	t.state += 0x9e3779b97f4a7c15
	z := t.state
	z = (z ^ (z >> 30)) * 0xbf58476d1ce4e5b9
	z = (z ^ (z >> 27)) * 0x94d049bb133111eb
	return z ^ (z >> 31)
}

// Intn returns a value in [0,n). n <= 1 draws nothing and returns 0.
func (t *Tape) Intn(n int) int {
	if n <= 1 {
		return 0
	}
	if t.replay {
		if t.pos < len(t.Rec) {
			v := int(t.Rec[t.pos]) % n
			t.pos++
			return v
		}
		t.Overrun++
		return 0
	}
	v := int(t.next() % uint64(n))
	t.Rec = append(t.Rec, uint32(v))
	return v
}

// Pct returns true with probability p/100.
func (t *Tape) Pct(p int) bool {
	if p <= 0 {
		return false
	}
	if p >= 100 {
		return true
	}
	// 0 (the value of an exhausted tape) must mean "no".
	return t.Intn(100) >= 100-p
}

// Used returns the number of recorded values consumed so far.
func (t *Tape) Used() int {
	if t.replay {
		return t.pos
	}
	return len(t.Rec)
}

// Rand is a plain generator (not recorded) for building Cases from a seed.
type Rand struct{ t Tape }

// NewRand returns a generator for case construction.
func NewRand(seed uint64) *Rand { return &Rand{t: Tape{state: seed}} }

// Intn returns a value in [0,n).
func (r *Rand) Intn(n int) int {
	if n <= 1 {
		return 0
	}
	return int(r.t.next() % uint64(n))
}

// Pct returns true with probability p/100.
func (r *Rand) Pct(p int) bool { return r.Intn(100) < p }

// Uint64 returns 64 random bits.
func (r *Rand) Uint64() uint64 { return r.t.next() }

// Pick returns one of the strings.
func (r *Rand) Pick(xs ...string) string { return xs[r.Intn(len(xs))] }
