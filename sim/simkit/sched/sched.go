// Package sched is the deterministic scheduler behind the simrt seam.
//
// Tasks are real goroutines but exactly one of them holds the run token at
// any time; every other task is parked on its own channel. The token moves
// only at scheduling points (Yield, Lock, channel operations, Sleep, task
// start and end) and the next holder is chosen from the tape, so an execution
// is a pure function of (code, workload, tape). Blocking, wake-up, select
// choice and time are decided here, never by the Go runtime.
package sched

import (
	"container/heap"
	"fmt"
	"hash/fnv"
	"io"
	"os"
	"reflect"
	"runtime"
	"strings"
	"sync"
	"time"
	"unsafe"

	"github.com/ohler55/slip/simrt"
)

// Chooser is the source of every choice (a *tape.Tape).
type Chooser interface {
	Intn(n int) int
	Pct(p int) bool
}

// Outcome says how a run ended.
type Outcome int

const (
	// Completed means every task ended.
	Completed Outcome = iota
	// Deadlock means no task was runnable, no timer was pending and at least
	// one task was still blocked.
	Deadlock
	// Budget means the step budget ran out.
	Budget
)

func (o Outcome) String() string {
	return [...]string{"completed", "deadlock", "budget"}[o]
}

// Policy names.
const (
	PolicyRandom = "random"
	PolicyPCT    = "pct"
	PolicyRTB    = "run-to-block"
	PolicyRR     = "round-robin"
)

// Config parametrises one run.
type Config struct {
	// HoldPct: probability (percent) that a task which opens a write window
	// (rules R8/R10) is kept parked there for a while - until the other
	// tasks have passed some scheduling points or cannot go on - instead of
	// for one scheduling point only. A window of a few statements is met by
	// another task far more often that way.
	HoldPct int
	Policy  string
	// SwitchPct is, for the random policy, the probability (percent) that a
	// scheduling point considers another task at all.
	SwitchPct int
	// PCTDepth change points are placed in [0,PCTHorizon) steps.
	PCTDepth   int
	PCTHorizon int
	// YieldPct enables each Yield site with this probability (decided per
	// site and run from Salt, not from the tape).
	YieldPct int
	Salt     uint64
	// TimeJumpPct: at a scheduling point with a pending timer, jump the clock
	// to it with this probability although tasks are runnable (slow node).
	TimeJumpPct int
	Budget      int
	Epoch       time.Time
	// OnYield is called at every Yield (enabled or not) before the
	// scheduling decision; it may panic to inject an asynchronous fault.
	OnYield func(task int, site string)
}

type state int

const (
	runnable state = iota
	blocked
	done
)

// Task is one simulated routine.
type Task struct {
	holdUntil int
	condWait  bool
	ID        int
	Parent    int
	state     state
	wake      chan struct{}
	exited    chan struct{}
	killed    bool
	started   bool
	prio      int
	Blocked   string // what it is blocked on (for reports)
	PanicVal  any    // value of a panic that ended the task
	Panicked  bool
	w         *waiter
	Yields    int // number of Yield calls seen (all sites)
	liveIdx   int
}

// Event is one entry of the run's event log.
type Event struct {
	Seq  int    `json:"seq"`
	Task int    `json:"task"`
	Kind string `json:"kind"`
	Data string `json:"data,omitempty"`
}

type scase struct {
	send bool
	ch   reflect.Value
	val  reflect.Value
	key  uintptr
}

type waiter struct {
	task  *Task
	cases []scase
	done  bool
	idx   int
	val   reflect.Value
	ok    bool
}

type chanState struct {
	closed bool
	recvq  []*waiter
	sendq  []*waiter
	keep   reflect.Value
}

type muState struct {
	held    bool
	owner   int
	readers int // RWMutex read holders
	waiters []*Task
}

type timer struct {
	at  time.Duration
	seq int
	fn  func()
}

type timerHeap []*timer

func (h timerHeap) Len() int { return len(h) }
func (h timerHeap) Less(i, j int) bool {
	if h[i].at != h[j].at {
		return h[i].at < h[j].at
	}
	return h[i].seq < h[j].seq
}
func (h timerHeap) Swap(i, j int) { h[i], h[j] = h[j], h[i] }
func (h *timerHeap) Push(x any)   { *h = append(*h, x.(*timer)) }
func (h *timerHeap) Pop() any {
	old := *h
	n := len(old)
	x := old[n-1]
	*h = old[:n-1]
	return x
}

const (
	fairBound    = 3000
	maxTimeJumps = 64
	maxLiveTasks = 2000
)

// Stats counts what happened in a run.
type Stats struct {
	Steps          int
	Switches       int
	Blocks         int
	TimerFires     int
	TimeJumps      int
	LockContended  int
	SelectMulti    int // selects with more than one ready case
	Tasks          int
	MaxRunnable    int
	ForcedSwitches int
	MapWindows     int
	WindowHolds    int // write windows opened on shared maps
}

// Sched is one simulated execution.
type Sched struct {
	cfg       Config
	ch        Chooser
	tasks     []*Task
	live      []*Task // tasks that have not ended (scanned at every scheduling point)
	rbuf      []*Task
	cur       *Task
	now       time.Duration
	timers    timerHeap
	tseq      int
	chans     map[uintptr]*chanState
	mus       map[*sync.Mutex]*muState
	conds     map[*sync.Cond][]*Task
	held      []*Task // tasks parked with a write window held open (Config.HoldPct)
	rws       map[*sync.RWMutex]*muState
	doneCh    chan Outcome
	ended     bool
	killing   bool
	seq       int
	Events    []Event
	KeepLog   bool
	hash      uint64
	shash     uint64 // hash of the context-switch sequence
	pairs     map[string]int
	Stats     Stats
	changes   map[int]bool
	lowPrio   int
	rr        int
	lastSite  string
	streak    int
	budgetHit bool
	// Trace, when set, receives one line per scheduling point (debugging
	// aid for the determinism self-test; never used in checks).
	Trace io.Writer
	// Misuse records harness-visible runtime errors of the simulated program
	// (unlock of unlocked mutex, ...).
	Misuse []string
	// MapRaces lists the conflicting accesses to one Go map by two tasks
	// that the run exposed ("<kind> <site of the open write> <site of the
	// other access>"), each pair once.
	MapRaces []string
	mapWins  map[unsafe.Pointer][]mapWin
	raceSeen map[string]bool
}

type mapWin struct {
	task int
	site string
}

// New creates a scheduler.
func New(cfg Config, ch Chooser) *Sched {
	if cfg.Budget <= 0 {
		cfg.Budget = 1 << 20
	}
	if cfg.Epoch.IsZero() {
		cfg.Epoch = time.Date(2024, 1, 2, 3, 4, 5, 0, time.UTC)
	}
	if cfg.Policy == "" {
		cfg.Policy = PolicyRandom
	}
	s := &Sched{
		cfg:    cfg,
		ch:     ch,
		chans:  map[uintptr]*chanState{},
		mus:    map[*sync.Mutex]*muState{},
		conds:  map[*sync.Cond][]*Task{},
		rws:    map[*sync.RWMutex]*muState{},
		doneCh: make(chan Outcome, 1),
		pairs:  map[string]int{},
		hash:   14695981039346656037,
		shash:  14695981039346656037,
	}
	if cfg.Policy == PolicyPCT {
		s.changes = map[int]bool{}
		h := cfg.PCTHorizon
		if h <= 0 {
			h = 1000
		}
		for i := 0; i < cfg.PCTDepth; i++ {
			s.changes[ch.Intn(h)] = true
		}
	}
	return s
}

// Result is what Run returns.
type Result struct {
	Outcome Outcome
	// Stuck lists the tasks that were still blocked at the end, with what
	// they were blocked on.
	Stuck []string
	// Panics lists tasks that ended with a Go panic.
	Panics []*Task
	SimDur time.Duration
}

func mixHash(h uint64, s string) uint64 {
	for i := 0; i < len(s); i++ {
		h ^= uint64(s[i])
		h *= 1099511628211
	}
	h ^= 0xff
	h *= 1099511628211
	return h
}

// Emit appends an engine event to the log, stamped with the global sequence
// number and the current task.
func (s *Sched) Emit(kind, data string) int {
	s.seq++
	id := -1
	if s.cur != nil {
		id = s.cur.ID
	}
	if s.KeepLog {
		s.Events = append(s.Events, Event{Seq: s.seq, Task: id, Kind: kind, Data: data})
	}
	s.hash = mixHash(s.hash, fmt.Sprintf("%d|%s|%s", id, kind, data))
	if s.Trace != nil {
		fmt.Fprintf(s.Trace, "EVENT %d|%s|%s\n", id, kind, data)
	}
	return s.seq
}

// Seq returns a fresh global sequence number.
func (s *Sched) Seq() int { s.seq++; return s.seq }

// Hash is the fingerprint of the event log so far.
func (s *Sched) Hash() uint64 { return s.hash ^ (s.shash * 31) }

// SchedHash is the fingerprint of the context-switch sequence alone.
func (s *Sched) SchedHash() uint64 { return s.shash }

// SwitchPairs returns the (site-before -> site-after) pairs seen at context
// switches.
func (s *Sched) SwitchPairs() map[string]int { return s.pairs }

// CurID returns the running task's id.
func (s *Sched) CurID() int { return s.cur.ID }

// Now returns simulated elapsed time.
func (s *Sched) Elapsed() time.Duration { return s.now }

// Tasks returns all tasks.
func (s *Sched) Tasks() []*Task { return s.tasks }

func (s *Sched) newTask(fn func(), parent int) *Task {
	t := &Task{ID: len(s.tasks), Parent: parent, wake: make(chan struct{}, 1), exited: make(chan struct{})}
	if s.cfg.Policy == PolicyPCT {
		t.prio = 1000 + s.ch.Intn(1000)*16 + t.ID
	}
	s.tasks = append(s.tasks, t)
	t.liveIdx = len(s.live)
	s.live = append(s.live, t)
	s.Stats.Tasks++
	go func() {
		defer close(t.exited)
		<-t.wake
		if t.killed {
			return
		}
		t.started = true
		defer s.taskEnd(t)
		fn()
	}()
	return t
}

func (s *Sched) taskEnd(t *Task) {
	if s.killing {
		// Goexit during the kill phase or the end of a killed task.
		_ = recover()
		return
	}
	if r := recover(); r != nil {
		t.Panicked = true
		t.PanicVal = r
		s.Emit("task-panic", fmt.Sprint(r))
	}
	t.state = done
	// O(1) removal (runs with very many short-lived tasks): the last live
	// task takes the place of the ended one
	if i := t.liveIdx; i < len(s.live) && s.live[i] == t {
		last := s.live[len(s.live)-1]
		s.live[i] = last
		last.liveIdx = i
		s.live = s.live[:len(s.live)-1]
	}
	s.Emit("task-end", "")
	next := s.dispatch()
	if next == nil {
		s.finish()
		return
	}
	s.switchTo(next, "end")
}

func (s *Sched) finish() {
	if s.ended {
		return
	}
	s.ended = true
	out := Completed
	for _, t := range s.tasks {
		if t.state != done {
			out = Deadlock
		}
	}
	if s.budgetHit && out != Completed {
		out = Budget
	}
	s.doneCh <- out
}

// Run executes main as task 0 and returns when the run is over. All tasks
// that are still alive are then terminated (their deferred calls run).
func (s *Sched) Run(main func()) Result {
	simrt.Install(s)
	t0 := s.newTask(main, -1)
	s.cur = t0
	t0.wake <- struct{}{}
	out := <-s.doneCh
	res := Result{Outcome: out, SimDur: s.now}
	for _, t := range s.tasks {
		if t.state != done {
			res.Stuck = append(res.Stuck, fmt.Sprintf("task %d: %s", t.ID, t.Blocked))
		}
		if t.Panicked {
			res.Panics = append(res.Panics, t)
		}
	}
	s.killing = true
	for _, t := range s.tasks {
		if t.state == done {
			<-t.exited
			continue
		}
		t.killed = true
		s.cur = t
		t.wake <- struct{}{}
		<-t.exited
	}
	// A task that was ended inside a critical section without a deferred
	// unlock leaves the real mutex locked; code running after the simulation
	// (the next case, a solo run) must not find it so.
	for m, st := range s.mus {
		if st.held {
			st.held = false
			m.Unlock()
		}
	}
	for m, st := range s.rws {
		if st.held {
			st.held = false
			m.Unlock()
		}
		for ; st.readers > 0; st.readers-- {
			m.RUnlock()
		}
	}
	simrt.Install(nil)
	return res
}

func (s *Sched) park(t *Task) {
	<-t.wake
	if t.killed {
		runtime.Goexit()
	}
}

func (s *Sched) switchTo(next *Task, site string) {
	s.Stats.Switches++
	s.shash = mixHash(s.shash, fmt.Sprintf("%d>%d@%s", s.cur.ID, next.ID, site))
	s.lastSite = site
	s.cur = next
	next.wake <- struct{}{}
}

func (s *Sched) runnable() []*Task {
	r := s.rbuf[:0]
	for _, t := range s.live {
		if t.state == runnable {
			r = append(r, t)
		}
	}
	if len(r) > s.Stats.MaxRunnable {
		s.Stats.MaxRunnable = len(r)
	}
	s.rbuf = r
	return r
}

// pick chooses among runnable tasks; cur (if runnable) is among them.
func (s *Sched) pick(r []*Task, atPoint bool) *Task {
	if len(r) == 1 {
		return r[0]
	}
	curRunnable := s.cur != nil && s.cur.state == runnable
	switch s.cfg.Policy {
	case PolicyPCT:
		best := r[0]
		for _, t := range r[1:] {
			if t.prio > best.prio {
				best = t
			}
		}
		return best
	case PolicyRTB:
		if curRunnable && atPoint {
			return s.cur
		}
	case PolicyRR:
		if curRunnable && atPoint && s.Stats.Steps%8 != 0 {
			return s.cur
		}
		s.rr++
		return r[s.rr%len(r)]
	default:
		if curRunnable && atPoint && !s.ch.Pct(s.cfg.SwitchPct) {
			return s.cur
		}
	}
	// Order candidates with the current task first so that choice 0 (the
	// value of an exhausted or zeroed tape) means "keep running".
	if curRunnable {
		i := s.ch.Intn(len(r))
		if i == 0 {
			return s.cur
		}
		k := 0
		for _, t := range r {
			if t == s.cur {
				continue
			}
			k++
			if k == i {
				return t
			}
		}
	}
	return r[s.ch.Intn(len(r))]
}

// dispatch returns the next task to run when the current one cannot
// continue, advancing the clock if necessary; nil means the run is over.
// releaseHeld makes the tasks runnable again whose hold has run out (all of
// them when nothing else can run).
func (s *Sched) releaseHeld(all bool) {
	k := 0
	for _, t := range s.held {
		if all || t.holdUntil <= s.Stats.Steps || t.state != blocked {
			s.ready(t)
			continue
		}
		s.held[k] = t
		k++
	}
	s.held = s.held[:k]
}

func (s *Sched) dispatch() *Task {
	for {
		if len(s.held) > 0 {
			s.releaseHeld(false)
		}
		r := s.runnable()
		if len(r) > 0 {
			return s.pick(r, false)
		}
		if len(s.held) > 0 {
			s.releaseHeld(true)
			continue
		}
		if len(s.timers) == 0 {
			return nil
		}
		if len(s.live) == 0 {
			return nil
		}
		if !s.step() {
			return nil
		}
		s.fireNext()
	}
}

func (s *Sched) fireNext() {
	tm := heap.Pop(&s.timers).(*timer)
	if tm.at > s.now {
		s.now = tm.at
	}
	s.Stats.TimerFires++
	tm.fn()
}

func (s *Sched) after(d time.Duration, fn func()) {
	if d < 0 {
		d = 0
	}
	s.tseq++
	heap.Push(&s.timers, &timer{at: s.now + d, seq: s.tseq, fn: fn})
}

// step counts one scheduling step; false means the budget is exhausted.
func (s *Sched) step() bool {
	s.Stats.Steps++
	if s.Stats.Steps > s.cfg.Budget {
		s.budgetHit = true
		return false
	}
	return true
}

func (s *Sched) overBudget() {
	t := s.cur
	t.Blocked = "step budget exhausted (was running)"
	if !s.ended {
		s.ended = true
		s.doneCh <- Budget
	}
	s.park(t)
}

// point is a scheduling point of the running task.
func (s *Sched) point(site string) {
	if s.killing {
		runtime.Goexit()
	}
	if s.Trace != nil {
		fmt.Fprintf(s.Trace, "%d %s\n", s.cur.ID, site)
	}
	if !s.step() {
		s.overBudget()
	}
	if s.changes != nil && s.changes[s.Stats.Steps] {
		s.lowPrio--
		s.cur.prio = s.lowPrio
	}
	if len(s.held) > 0 {
		s.releaseHeld(false)
	}
	// clock jumps are a fault: they stop after maxTimeJumps per run
	if len(s.timers) > 0 && s.cfg.TimeJumpPct > 0 && s.Stats.TimeJumps < maxTimeJumps && s.ch.Pct(s.cfg.TimeJumpPct) {
		s.Stats.TimeJumps++
		s.fireNext()
	}
	r := s.runnable()
	if len(r) <= 1 {
		s.streak = 0
		return
	}
	next := s.pick(r, true)
	if next == s.cur {
		// Bounded unfairness: a routine that never blocks (a polling loop)
		// must not starve the others for ever under a strict-priority or
		// run-to-block policy - the real runtime is preemptive. After
		// FairBound consecutive points another runnable task is forced in.
		s.streak++
		if s.streak <= fairBound {
			return
		}
		s.Stats.ForcedSwitches++
		if s.changes != nil {
			s.lowPrio--
			s.cur.prio = s.lowPrio
		}
		var others []*Task
		for _, t := range r {
			if t != s.cur {
				others = append(others, t)
			}
		}
		next = others[s.ch.Intn(len(others))]
	}
	s.streak = 0
	t := s.cur
	s.pairs[s.lastSite+"->"+site]++
	s.switchTo(next, site)
	s.park(t)
}

// block parks the running task until another task or a timer makes it
// runnable again.
func (s *Sched) block(what string) {
	t := s.cur
	t.state = blocked
	t.Blocked = what
	s.Stats.Blocks++
	next := s.dispatch()
	if next == nil {
		s.finish()
		s.park(t)
		return
	}
	if next == t {
		return
	}
	s.switchTo(next, "block:"+what)
	s.park(t)
}

func (s *Sched) ready(t *Task) {
	if t.state == blocked {
		t.state = runnable
		t.Blocked = ""
	}
}

// ---- simrt.Runtime ----

// Go starts a task.
func (s *Sched) Go(fn func()) {
	if s.killing {
		return
	}
	if len(s.live) >= maxLiveTasks {
		// a program that piles up routines without end: same verdict as
		// running out of steps (and it keeps every scheduling point cheap)
		s.budgetHit = true
		s.overBudget()
	}
	t := s.newTask(fn, s.cur.ID)
	s.Emit("go", fmt.Sprint(t.ID))
	s.point("go")
}

func siteOn(site string, salt uint64, pct int) bool {
	if pct >= 100 {
		return true
	}
	if pct <= 0 {
		return false
	}
	h := fnv.New64a()
	_, _ = h.Write([]byte(site))
	v := h.Sum64() ^ salt
	v ^= v >> 33
	v *= 0xff51afd7ed558ccd
	v ^= v >> 33
	return int(v%100) < pct
}

// Yield is a plain scheduling point.
func (s *Sched) Yield(site string) {
	if s.killing {
		runtime.Goexit()
	}
	s.cur.Yields++
	if s.cfg.OnYield != nil {
		s.cfg.OnYield(s.cur.ID, site)
	}
	if !siteOn(site, s.cfg.Salt, s.cfg.YieldPct) {
		return
	}
	s.point(site)
}

// Lock acquires a mutex; the scheduling point is before the acquisition.
func (s *Sched) rwState(m *sync.RWMutex) *muState {
	st := s.rws[m]
	if st == nil {
		st = &muState{}
		s.rws[m] = st
	}
	return st
}

func (s *Sched) rwLock(m *sync.RWMutex, site string, write bool) {
	if s.killing {
		runtime.Goexit()
	}
	s.point(site)
	st := s.rwState(m)
	for st.held || (write && st.readers > 0) {
		s.Stats.LockContended++
		st.waiters = append(st.waiters, s.cur)
		s.block(fmt.Sprintf("rwmutex (writer=%v readers=%d) (%s)", st.held, st.readers, site))
	}
	if write {
		if !m.TryLock() {
			panic("simkit: rwmutex locked outside the simulation")
		}
		st.held = true
		st.owner = s.cur.ID
	} else {
		if !m.TryRLock() {
			panic("simkit: rwmutex locked outside the simulation")
		}
		st.readers++
	}
}

func (s *Sched) rwUnlock(m *sync.RWMutex, write bool) {
	st := s.rwState(m)
	if (write && !st.held) || (!write && st.readers == 0) {
		if s.killing {
			return
		}
		s.Misuse = append(s.Misuse, "unlock of unlocked rwmutex")
		s.Emit("misuse", "unlock of unlocked rwmutex")
		return
	}
	if write {
		st.held = false
		m.Unlock()
	} else {
		st.readers--
		m.RUnlock()
	}
	for _, t := range st.waiters {
		s.ready(t)
	}
	st.waiters = st.waiters[:0]
}

// RLock acquires a read lock.
func (s *Sched) RLock(l *sync.RWMutex, site string) { s.rwLock(l, site, false) }

// RUnlock releases a read lock.
func (s *Sched) RUnlock(l *sync.RWMutex) { s.rwUnlock(l, false) }

// Lock acquires a mutex; the scheduling point is before the acquisition.
func (s *Sched) Lock(l sync.Locker, site string) {
	if rw, isRW := l.(*sync.RWMutex); isRW {
		s.rwLock(rw, site, true)
		return
	}
	m, ok := l.(*sync.Mutex)
	if !ok {
		l.Lock()
		return
	}
	if s.killing {
		runtime.Goexit()
	}
	s.point(site)
	st := s.mus[m]
	if st == nil {
		st = &muState{}
		s.mus[m] = st
	}
	if st.held {
		s.Stats.LockContended++
	}
	for st.held {
		st.waiters = append(st.waiters, s.cur)
		s.block(fmt.Sprintf("mutex held by task %d (%s)", st.owner, site))
	}
	if !m.TryLock() {
		panic("simkit: mutex locked outside the simulation")
	}
	st.held = true
	st.owner = s.cur.ID
}

// TryLock is a scheduling point; it takes the mutex if the simulator
// considers it free.
func (s *Sched) TryLock(l simrt.TryLocker, site string) bool {
	if s.killing {
		runtime.Goexit()
	}
	switch m := l.(type) {
	case *sync.Mutex:
		s.point(site)
		st := s.mus[m]
		if st == nil {
			st = &muState{}
			s.mus[m] = st
		}
		if st.held {
			return false
		}
		if !m.TryLock() {
			panic("simkit: mutex locked outside the simulation")
		}
		st.held = true
		st.owner = s.cur.ID
		return true
	case *sync.RWMutex:
		s.point(site)
		st := s.rwState(m)
		if st.held || st.readers > 0 {
			return false
		}
		if !m.TryLock() {
			panic("simkit: rwmutex locked outside the simulation")
		}
		st.held = true
		st.owner = s.cur.ID
		return true
	}
	return l.TryLock()
}

// Unlock releases a mutex and makes its waiters runnable.
func (s *Sched) Unlock(l sync.Locker) {
	if rw, isRW := l.(*sync.RWMutex); isRW {
		s.rwUnlock(rw, true)
		return
	}
	m, ok := l.(*sync.Mutex)
	if !ok {
		l.Unlock()
		return
	}
	st := s.mus[m]
	if st == nil || !st.held {
		if s.killing {
			return
		}
		// The real runtime would abort the process ("unlock of unlocked
		// mutex"); report it instead.
		s.Misuse = append(s.Misuse, "unlock of unlocked mutex")
		s.Emit("misuse", "unlock of unlocked mutex")
		return
	}
	st.held = false
	m.Unlock()
	for _, t := range st.waiters {
		s.ready(t)
	}
	st.waiters = st.waiters[:0]
}

// CondWait implements (*sync.Cond).Wait: release the lock, wait for a signal
// (no spurious wake-ups, as in the Go runtime), take the lock again.
func (s *Sched) CondWait(c *sync.Cond, site string) {
	if s.killing {
		runtime.Goexit()
	}
	s.Unlock(c.L)
	t := s.cur
	s.conds[c] = append(s.conds[c], t)
	t.condWait = true
	for t.condWait {
		s.block("cond wait (" + site + ")")
	}
	s.Lock(c.L, site)
}

// CondSignal implements Signal (the longest waiter, as the runtime's ticket
// order does) and Broadcast.
func (s *Sched) CondSignal(c *sync.Cond, all bool) {
	q := s.conds[c]
	n := 1
	if all {
		n = len(q)
	}
	for ; n > 0 && len(q) > 0; n-- {
		q[0].condWait = false
		s.ready(q[0])
		q = q[1:]
	}
	s.conds[c] = q
}

// MutexHeld reports whether the simulator considers m held, and by whom.
func (s *Sched) MutexHeld(m *sync.Mutex) (bool, int) {
	if st := s.mus[m]; st != nil && st.held {
		return true, st.owner
	}
	return false, -1
}

func (s *Sched) chanOf(c scase) *chanState {
	st := s.chans[c.key]
	if st == nil {
		st = &chanState{keep: c.ch}
		s.chans[c.key] = st
	}
	return st
}

func pendingOther(q []*waiter, self *Task) *waiter {
	for _, w := range q {
		if !w.done && w.task != self {
			return w
		}
	}
	return nil
}

func (s *Sched) caseReady(c scase) bool {
	if c.key == 0 {
		return false // nil channel
	}
	st := s.chanOf(c)
	if st.closed {
		return true
	}
	if c.send {
		if c.ch.Cap() > 0 {
			return c.ch.Len() < c.ch.Cap()
		}
		return pendingOther(st.recvq, s.cur) != nil
	}
	if c.ch.Len() > 0 {
		return true
	}
	if c.ch.Cap() == 0 {
		return pendingOther(st.sendq, s.cur) != nil
	}
	return false
}

func (s *Sched) unregister(w *waiter) {
	for _, c := range w.cases {
		if c.key == 0 {
			continue
		}
		st := s.chans[c.key]
		if st == nil {
			continue
		}
		q := &st.recvq
		if c.send {
			q = &st.sendq
		}
		for i, x := range *q {
			if x == w {
				*q = append((*q)[:i], (*q)[i+1:]...)
				break
			}
		}
	}
}

func caseIndex(w *waiter, key uintptr, send bool) int {
	for i, c := range w.cases {
		if c.key == key && c.send == send {
			return i
		}
	}
	return -1
}

func (s *Sched) wakeAll(q []*waiter) {
	for _, w := range q {
		if !w.done {
			s.ready(w.task)
		}
	}
}

func (s *Sched) perform(c scase) (reflect.Value, bool) {
	st := s.chanOf(c)
	if c.send {
		if st.closed {
			c.ch.Send(c.val) // panics: send on closed channel
		}
		if c.ch.Cap() > 0 {
			if !c.ch.TrySend(c.val) {
				panic("simkit: buffered send did not complete")
			}
			s.wakeAll(st.recvq)
			return reflect.Value{}, false
		}
		w := pendingOther(st.recvq, s.cur)
		w.done, w.val, w.ok = true, c.val, true
		w.idx = caseIndex(w, c.key, false)
		s.unregister(w)
		s.ready(w.task)
		return reflect.Value{}, false
	}
	if c.ch.Len() > 0 || st.closed {
		v, ok := c.ch.TryRecv()
		if !v.IsValid() {
			panic("simkit: receive did not complete")
		}
		s.wakeAll(st.sendq)
		return v, ok
	}
	w := pendingOther(st.sendq, s.cur)
	w.done = true
	w.idx = caseIndex(w, c.key, true)
	v := w.cases[w.idx].val
	s.unregister(w)
	s.ready(w.task)
	return v, true
}

func (s *Sched) sel(cases []scase, hasDefault bool, site, what string) (int, reflect.Value, bool) {
	if s.killing {
		runtime.Goexit()
	}
	s.point(site)
	for {
		var ready []int
		for i, c := range cases {
			if s.caseReady(c) {
				ready = append(ready, i)
			}
		}
		if len(ready) > 0 {
			if len(ready) > 1 {
				s.Stats.SelectMulti++
			}
			i := ready[s.ch.Intn(len(ready))]
			v, ok := s.perform(cases[i])
			return i, v, ok
		}
		if hasDefault {
			return len(cases), reflect.Value{}, false
		}
		w := &waiter{task: s.cur, cases: cases}
		for _, c := range cases {
			if c.key == 0 {
				continue
			}
			st := s.chanOf(c)
			if c.send {
				st.sendq = append(st.sendq, w)
			} else {
				st.recvq = append(st.recvq, w)
			}
		}
		s.cur.w = w
		s.block(what + " " + site)
		s.cur.w = nil
		if w.done {
			return w.idx, w.val, w.ok
		}
		s.unregister(w)
	}
}

func mkcase(send bool, ch, val reflect.Value) scase {
	c := scase{send: send, ch: ch, val: val}
	if ch.IsValid() && !ch.IsNil() {
		c.key = ch.Pointer()
	}
	return c
}

// Send implements ch <- v.
func (s *Sched) Send(ch reflect.Value, v reflect.Value, site string) {
	s.sel([]scase{mkcase(true, ch, v)}, false, site, "send")
}

// Recv implements <-ch.
func (s *Sched) Recv(ch reflect.Value, site string) (reflect.Value, bool) {
	_, v, ok := s.sel([]scase{mkcase(false, ch, reflect.Value{})}, false, site, "recv")
	return v, ok
}

// Close implements close(ch).
func (s *Sched) Close(ch reflect.Value) {
	c := mkcase(false, ch, reflect.Value{})
	ch.Close() // panics like the real one for nil / closed channels
	if s.killing {
		return
	}
	st := s.chanOf(c)
	st.closed = true
	s.wakeAll(st.recvq)
	s.wakeAll(st.sendq)
}

// Select implements select / reflect.Select. A default case, if present,
// must be last.
func (s *Sched) Select(cases []reflect.SelectCase, site string) (int, reflect.Value, bool) {
	var sc []scase
	hasDefault := false
	defIdx := -1
	idxMap := make([]int, 0, len(cases))
	for i, c := range cases {
		switch c.Dir {
		case reflect.SelectDefault:
			hasDefault = true
			defIdx = i
		case reflect.SelectSend:
			sc = append(sc, mkcase(true, c.Chan, c.Send))
			idxMap = append(idxMap, i)
		default:
			sc = append(sc, mkcase(false, c.Chan, reflect.Value{}))
			idxMap = append(idxMap, i)
		}
	}
	i, v, ok := s.sel(sc, hasDefault, site, "select")
	if i == len(sc) {
		return defIdx, reflect.Value{}, false
	}
	return idxMap[i], v, ok
}

// MapAccess implements the map access probes (rule R8). A write with window
// set keeps a "write window" open on the map across one scheduling point; an
// access to the same map by another task while the window is open means
// nothing orders the two accesses, which on the real runtime is a data race
// on the map (fatal "concurrent map writes" / "concurrent map read and map
// write" when the runtime notices it).
func (s *Sched) MapAccess(p unsafe.Pointer, write, window bool, site string) {
	if s.killing {
		return
	}
	if dbgSite != "" && strings.Contains(site, dbgSite) {
		fmt.Fprintf(os.Stderr, "MapAccess task=%d p=%p write=%v window=%v site=%s open=%v live=%d\n", s.cur.ID, p, write, window, site, s.mapWins[p], len(s.live))
	}
	for _, w := range s.mapWins[p] {
		if w.task == s.cur.ID {
			continue
		}
		kind := "write/read"
		if write {
			kind = "write/write"
		}
		key := kind + " " + w.site + " " + site
		if !s.raceSeen[key] {
			if s.raceSeen == nil {
				s.raceSeen = map[string]bool{}
			}
			s.raceSeen[key] = true
			s.MapRaces = append(s.MapRaces, key)
			s.Emit("map-race", key)
		}
	}
	if !write || !window || len(s.live) < 2 || !siteOn(site, s.cfg.Salt, s.cfg.YieldPct) {
		return
	}
	if s.mapWins == nil {
		s.mapWins = map[unsafe.Pointer][]mapWin{}
	}
	id := s.cur.ID
	s.mapWins[p] = append(s.mapWins[p], mapWin{id, site})
	s.Stats.MapWindows++
	if s.cfg.HoldPct > 0 && s.ch.Pct(s.cfg.HoldPct) {
		t := s.cur
		t.holdUntil = s.Stats.Steps + 30 + s.ch.Intn(300)
		s.held = append(s.held, t)
		s.Stats.WindowHolds++
		s.block("write window held open (" + site + ")")
	} else {
		s.point("mapw:" + site)
	}
	ws := s.mapWins[p]
	for i, w := range ws {
		if w.task == id {
			ws = append(ws[:i], ws[i+1:]...)
			break
		}
	}
	if len(ws) == 0 {
		delete(s.mapWins, p)
	} else {
		s.mapWins[p] = ws
	}
}

var dbgSite = os.Getenv("SCHED_DEBUG_SITE")

// RaceMap returns the map name of a MapRaces entry (that of the open write
// window).
func RaceMap(race string) string {
	f := strings.Fields(race)
	if len(f) < 2 {
		return race
	}
	return f[1][strings.LastIndexByte(f[1], ':')+1:]
}

// UnknownRaces returns the (alphabetically first) map with races that is not
// in known, and its races.
func UnknownRaces(races, known []string) (m string, of []string) {
	for _, r := range races {
		rm := RaceMap(r)
		isKnown := false
		for _, k := range known {
			if k == rm {
				isKnown = true
			}
		}
		if !isKnown && (m == "" || rm < m) {
			m = rm
		}
	}
	for _, r := range races {
		if m != "" && RaceMap(r) == m {
			of = append(of, r)
		}
	}
	return
}

// Sleep blocks the task for d of simulated time.
func (s *Sched) Sleep(d time.Duration) {
	if s.killing {
		runtime.Goexit()
	}
	if d <= 0 {
		s.point("sleep0")
		return
	}
	t := s.cur
	woke := false
	s.after(d, func() { woke = true; s.ready(t) })
	for !woke {
		s.block(fmt.Sprintf("sleep %v", d))
	}
}

// After implements time.After.
func (s *Sched) After(d time.Duration) <-chan time.Time {
	ch := make(chan time.Time, 1)
	cv := reflect.ValueOf(ch)
	c := mkcase(false, cv, reflect.Value{})
	st := s.chanOf(c)
	s.after(d, func() {
		select {
		case ch <- s.Now():
		default:
		}
		s.wakeAll(st.recvq)
	})
	return ch
}

// Tick implements time.Tick.
func (s *Sched) Tick(d time.Duration) <-chan time.Time {
	if d <= 0 {
		return nil
	}
	ch := make(chan time.Time, 1)
	cv := reflect.ValueOf(ch)
	c := mkcase(false, cv, reflect.Value{})
	st := s.chanOf(c)
	var fire func()
	fire = func() {
		select {
		case ch <- s.Now():
		default:
		}
		s.wakeAll(st.recvq)
		s.after(d, fire)
	}
	s.after(d, fire)
	return ch
}

// Now implements time.Now.
func (s *Sched) Now() time.Time { return s.cfg.Epoch.Add(s.now) }
