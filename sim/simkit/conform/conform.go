// Package conform is the conformance self-test of the simulator's own model
// pieces (channel blocking and hand-off, select choice, close wake-ups,
// timers, mutex hand-off): small Go programs written against the simrt seam
// run many times on the real Go runtime (simrt in passthrough mode) and many
// times under the simulator; every program asserts its own invariants in
// both worlds, and every outcome the real runtime shows must be an outcome
// the simulator can produce as well.
package conform

import (
	"fmt"
	"sort"
	"strings"
	"sync"
	"time"

	"github.com/ohler55/slip/simrt"
	"verif/sim/simkit/sched"
	"verif/sim/simkit/tape"
)

type prog struct {
	name string
	// run executes the program; it returns the outcome string and an
	// invariant error ("" = fine). wait blocks until n started routines ended.
	run func() (string, string)
	// noSubset: the outcome space is too large to be covered by sampling, so
	// only the invariants are checked, not "real outcomes are sim outcomes".
	noSubset bool
}

func join(xs []int) string {
	var p []string
	for _, x := range xs {
		p = append(p, fmt.Sprint(x))
	}
	return strings.Join(p, ",")
}

func fifoPerProducer(xs []int) string {
	last := map[int]int{}
	for _, x := range xs {
		p := x / 100
		if l, ok := last[p]; ok && x <= l {
			return fmt.Sprintf("order broken: %v", xs)
		}
		last[p] = x
	}
	return ""
}

func producersConsumer(cap, producers, items int) func() (string, string) {
	return func() (string, string) {
		ch := make(chan int, cap)
		done := make(chan bool, producers)
		for p := 1; p <= producers; p++ {
			p := p
			simrt.Go(func() {
				for i := 0; i < items; i++ {
					simrt.Send(ch, p*100+i, "conform")
				}
				simrt.Send(done, true, "conform")
			})
		}
		var got []int
		for i := 0; i < producers*items; i++ {
			got = append(got, simrt.Recv[int](ch, "conform"))
		}
		for p := 0; p < producers; p++ {
			simrt.Recv[bool](done, "conform")
		}
		if len(got) != producers*items {
			return join(got), "lost items"
		}
		return join(got), fifoPerProducer(got)
	}
}

var programs = []prog{ // {name, run, noSubset}
	{name: "unbuffered-2x2", run: producersConsumer(0, 2, 2), noSubset: false},
	{name: "buffered1-2x2", run: producersConsumer(1, 2, 2), noSubset: false},
	{name: "buffered4-3x2", run: producersConsumer(4, 3, 2), noSubset: true},
	{name: "select-two-ready", run: func() (string, string) {
		a, b := make(chan int, 1), make(chan int, 1)
		a <- 1
		b <- 2
		i, v, ok := simrt.SelectStmt([]simrt.Case{{Chan: a}, {Chan: b}}, false, "conform")
		if !ok || int(v.Int()) != i+1 {
			return "", "select returned a value from the wrong channel"
		}
		return fmt.Sprint(i), ""
	}},
	{name: "select-default", run: func() (string, string) {
		a := make(chan int)
		i, _, _ := simrt.SelectStmt([]simrt.Case{{Chan: a}}, true, "conform")
		if i != 1 {
			return fmt.Sprint(i), "default not taken on an empty channel"
		}
		return "default", ""
	}},
	{name: "close-wakes-receivers", run: func() (string, string) {
		ch := make(chan int)
		res := make(chan string, 2)
		for k := 0; k < 2; k++ {
			simrt.Go(func() {
				v, ok := simrt.Recv2[int](ch, "conform")
				simrt.Send(res, fmt.Sprint(v, ok), "conform")
			})
		}
		simrt.Sleep(time.Millisecond)
		simrt.Close(ch)
		r1, r2 := simrt.Recv[string](res, "conform"), simrt.Recv[string](res, "conform")
		if r1 != "0 false" || r2 != "0 false" {
			return r1 + "|" + r2, "receivers of a closed channel did not get (zero,false)"
		}
		return "ok", ""
	}},
	{name: "close-drains-buffer", run: func() (string, string) {
		ch := make(chan int, 2)
		simrt.Send(ch, 7, "conform")
		simrt.Send(ch, 8, "conform")
		simrt.Close(ch)
		a, ok1 := simrt.Recv2[int](ch, "conform")
		b, ok2 := simrt.Recv2[int](ch, "conform")
		c, ok3 := simrt.Recv2[int](ch, "conform")
		out := fmt.Sprint(a, ok1, b, ok2, c, ok3)
		if out != "7 true 8 true 0 false" {
			return out, "buffered values must survive close, then (zero,false)"
		}
		return out, ""
	}},
	{name: "timers-ordered", run: func() (string, string) {
		t1, t2 := simrt.After(2*time.Millisecond), simrt.After(30*time.Millisecond)
		start := simrt.Now()
		i, _, _ := simrt.SelectStmt([]simrt.Case{{Chan: t2}, {Chan: t1}}, false, "conform")
		if i != 1 {
			return fmt.Sprint(i), "the later timer fired first"
		}
		if d := simrt.Since(start); d < 2*time.Millisecond {
			return fmt.Sprint(d), "timer fired early"
		}
		return "first", ""
	}},
	{name: "mutex-counter", run: func() (string, string) {
		var mu sync.Mutex
		n := 0
		done := make(chan bool, 3)
		for k := 0; k < 3; k++ {
			simrt.Go(func() {
				for i := 0; i < 3; i++ {
					simrt.Lock(&mu, "conform")
					v := n
					simrt.Yield("conform-cs")
					n = v + 1
					simrt.Unlock(&mu)
				}
				simrt.Send(done, true, "conform")
			})
		}
		for k := 0; k < 3; k++ {
			simrt.Recv[bool](done, "conform")
		}
		if n != 9 {
			return fmt.Sprint(n), "lost update under the mutex"
		}
		return "9", ""
	}},
	{name: "cond-gate", run: func() (string, string) {
		// a gate of two slots made of a mutex and a condition variable: never
		// more than two inside, everybody gets through, a waiter only goes on
		// after a signal
		var mu sync.Mutex
		free := sync.NewCond(&mu)
		active, peak := 0, 0
		done := make(chan bool, 5)
		for k := 0; k < 5; k++ {
			simrt.Go(func() {
				simrt.Lock(&mu, "conform")
				for active >= 2 {
					simrt.CondWait(free, "conform")
				}
				active++
				if active > peak {
					peak = active
				}
				simrt.Unlock(&mu)
				simrt.Yield("conform-inside")
				simrt.Lock(&mu, "conform")
				active--
				simrt.Unlock(&mu)
				simrt.CondSignal(free)
				simrt.Send(done, true, "conform")
			})
		}
		for k := 0; k < 5; k++ {
			simrt.Recv[bool](done, "conform")
		}
		if peak > 2 || active != 0 {
			return fmt.Sprint(peak, active), "the gate let more than two in, or somebody never left"
		}
		return "ok", ""
	}},
	{name: "cond-broadcast", run: func() (string, string) {
		var mu sync.Mutex
		c := sync.NewCond(&mu)
		open := false
		done := make(chan bool, 3)
		for k := 0; k < 3; k++ {
			simrt.Go(func() {
				simrt.Lock(&mu, "conform")
				for !open {
					simrt.CondWait(c, "conform")
				}
				simrt.Unlock(&mu)
				simrt.Send(done, true, "conform")
			})
		}
		simrt.Sleep(time.Millisecond)
		simrt.Lock(&mu, "conform")
		open = true
		simrt.Unlock(&mu)
		simrt.CondBroadcast(c)
		for k := 0; k < 3; k++ {
			simrt.Recv[bool](done, "conform")
		}
		return "ok", ""
	}},
	{name: "unbuffered-rendezvous", run: func() (string, string) {
		// a send on an unbuffered channel completes only with a receiver
		ch := make(chan int)
		flag := make(chan int, 4)
		simrt.Go(func() {
			simrt.Send(ch, 1, "conform")
			simrt.Send(flag, 2, "conform") // after the hand-off
		})
		simrt.Sleep(time.Millisecond)
		simrt.Send(flag, 1, "conform") // before the receive: the sender must still be blocked
		simrt.Recv[int](ch, "conform")
		a := simrt.Recv[int](flag, "conform")
		b := simrt.Recv[int](flag, "conform")
		if a != 1 || b != 2 {
			return fmt.Sprint(a, b), "the unbuffered send completed before anyone received"
		}
		return "ok", ""
	}},
}

// Result of the conformance self-test for one program.
type Result struct {
	Program      string   `json:"program"`
	RealOutcomes []string `json:"real_outcomes"`
	SimOutcomes  int      `json:"sim_outcomes"`
	MissingInSim []string `json:"missing_in_sim,omitempty"`
	Error        string   `json:"error,omitempty"`
}

// Run executes the self-test with n runs per program and world.
func Run(n int, seed uint64) (out []Result, ok bool) {
	ok = true
	for pi, p := range programs {
		r := Result{Program: p.name}
		real := map[string]bool{}
		for i := 0; i < n && r.Error == ""; i++ {
			o, e := p.run()
			if e != "" {
				r.Error = "real runtime: " + e
			}
			real[o] = true
		}
		sim := map[string]bool{}
		policies := []string{sched.PolicyRandom, sched.PolicyPCT, sched.PolicyRTB, sched.PolicyRR}
		for i := 0; i < n && r.Error == ""; i++ {
			tp := tape.New(tape.Mix(seed, uint64(pi*1000003+i)))
			s := sched.New(sched.Config{Policy: policies[i%4], SwitchPct: []int{10, 50, 90}[i%3], YieldPct: 100, PCTDepth: 2, PCTHorizon: 50, Budget: 100000}, tp)
			var o, e string
			res := s.Run(func() { o, e = p.run() })
			if res.Outcome != sched.Completed {
				e = fmt.Sprintf("simulator run ended with %v: %v", res.Outcome, res.Stuck)
			}
			if len(res.Panics) > 0 {
				e = fmt.Sprint("simulated routine panicked: ", res.Panics[0].PanicVal)
			}
			if e != "" {
				r.Error = "simulator: " + e
			}
			sim[o] = true
		}
		for o := range real {
			r.RealOutcomes = append(r.RealOutcomes, o)
			if !sim[o] && !p.noSubset {
				r.MissingInSim = append(r.MissingInSim, o)
			}
		}
		sort.Strings(r.RealOutcomes)
		r.SimOutcomes = len(sim)
		if r.Error != "" || len(r.MissingInSim) > 0 {
			ok = false
		}
		out = append(out, r)
	}
	return
}
