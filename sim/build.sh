#!/bin/bash
# build.sh <workdir> : instrument /repo's working tree and build verif-sim there.
set -e
W=$1
export GOFLAGS=-mod=mod GOPROXY=off GOSUMDB=off GOTOOLCHAIN=local PATH=/opt/veriftools/go1.26.8/bin:$PATH
SIM=$(cd $(dirname $0) && pwd)
cd $SIM
mkdir -p $W
go build -o $W/instrument ./cmd/instrument
rm -rf $W/ov
$W/instrument -out $W/ov -ovl $SIM/ovl ${REPLACE:+-replace $REPLACE} 2>$W/instrument.log || { cat $W/instrument.log >&2; exit 2; }
go build -overlay $W/ov/overlay.json -o $W/verif-sim ./cmd/verif-sim
