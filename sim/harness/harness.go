// Package harness is the engine-independent part of a check: case
// generation from a seed, execution, accumulation of coverage, shrinking and
// replay. An engine supplies the workload generator, the simulated execution
// and the oracle for one property.
package harness

import (
	"encoding/json"
	"flag"
	"fmt"
	"io"
	"os"
	"path/filepath"
	"sort"
	"strings"
	"time"
)

// Violation is an oracle failure.
type Violation struct {
	// Class names the oracle clause that failed; shrinking keeps the class.
	Class  string `json:"class"`
	Detail string `json:"detail"`
}

// Verdict is the result of executing one case.
type Verdict struct {
	V *Violation
	// Pinned is the case with the failing fault / schedule pinned so that a
	// replay executes exactly the failing simulated run; nil = the case.
	Pinned json.RawMessage
	// Hashes are fingerprints of the non-trivial simulated executions that
	// this case consisted of.
	Hashes []uint64
	// Evals is the number of simulated executions performed.
	Evals   int
	Faults  map[string]int
	Probes  map[string]int
	SimTime time.Duration
	Steps   int
	Extra   map[string]int
}

// Finding is one entry of known_findings.json.
type Finding struct {
	Property string          `json:"property"`
	ID       string          `json:"id"`
	Status   string          `json:"status"` // "finding" or "fixed"
	Class    string          `json:"class"`
	Trigger  string          `json:"trigger,omitempty"`
	What     string          `json:"what"`
	Commit   string          `json:"commit,omitempty"`
	Confirm  json.RawMessage `json:"confirm,omitempty"`
}

// Engine is implemented per property.
type Engine interface {
	ID() string
	// Generate builds case idx of the run from the seed. avoid lists the
	// active known findings whose triggers generation must stay clear of.
	Generate(seed uint64, idx int, tier string, avoid []Finding) json.RawMessage
	Execute(c json.RawMessage) Verdict
	// Shrink returns simpler candidate cases, most aggressive first.
	Shrink(c json.RawMessage) []json.RawMessage
	// Matches reports whether a (minimised) violating case is an instance of
	// the known finding f.
	Matches(c json.RawMessage, v *Violation, f Finding) bool
	Meta() Meta
}

// Meta describes an engine for the evidence file.
type Meta struct {
	Level       string   `json:"level"`
	Rule        string   `json:"rule"`
	Real        []string `json:"real"`
	Stub        []string `json:"stub"`
	Assumptions []string `json:"assumptions"`
	FaultKinds  []string `json:"fault_kinds"`
	// QuickCases / ThoroughCases are the number of cases per tier.
	QuickCases    int `json:"quick_cases"`
	ThoroughCases int `json:"thorough_cases"`
}

var engines = map[string]Engine{}

// Out is where the harness prints its own result lines; the process's
// os.Stdout is redirected to /dev/null because code under test may print.
var Out io.Writer = os.Stdout

func abs(p string) string {
	if p == "" || p == "-" {
		return p
	}
	if a, err := filepath.Abs(p); err == nil {
		return a
	}
	return p
}

// Register adds an engine.
func Register(e Engine) { engines[strings.ToLower(e.ID())] = e }

// Failure is a violating case as found by a worker.
type Failure struct {
	Index     int             `json:"index"`
	Case      json.RawMessage `json:"case"`
	Violation Violation       `json:"violation"`
}

// WorkerResult is what one worker process reports.
type WorkerResult struct {
	Property string            `json:"property"`
	Seed     uint64            `json:"seed"`
	From     int               `json:"from"`
	To       int               `json:"to"`
	Cases    int               `json:"cases"`
	Evals    int               `json:"evals"`
	Hashes   []uint64          `json:"hashes"`
	Faults   map[string]int    `json:"faults"`
	Probes   map[string]int    `json:"probes"`
	Extra    map[string]int    `json:"extra"`
	SimTimeS float64           `json:"sim_time_s"`
	Steps    int               `json:"steps"`
	WallS    float64           `json:"wall_s"`
	Samples  []json.RawMessage `json:"samples"`
	Failures []Failure         `json:"failures"`
	LogHash  string            `json:"log_hash"` // digest over all verdict hashes in order (determinism self-test)
	// CaseDigests[i] fingerprints the verdict of case From+i; the determinism
	// self-test compares them across processes, chunkings and GOMAXPROCS.
	CaseDigests []string `json:"case_digests,omitempty"`
}

// Replay is the replay file format.
type Replay struct {
	Property  string          `json:"property"`
	Seed      uint64          `json:"seed"`
	Index     int             `json:"index"`
	Case      json.RawMessage `json:"case"`
	Violation Violation       `json:"violation"`
	Note      string          `json:"note,omitempty"`
}

func addMap(dst, src map[string]int) {
	for k, v := range src {
		dst[k] += v
	}
}

func loadFindings(path, prop string) (all []Finding) {
	if path == "" {
		return nil
	}
	b, err := os.ReadFile(path)
	if err != nil {
		return nil
	}
	var fs []Finding
	if err := json.Unmarshal(b, &fs); err != nil {
		fmt.Fprintf(os.Stderr, "harness: bad findings file: %v\n", err)
		os.Exit(2)
	}
	for _, f := range fs {
		if strings.EqualFold(f.Property, prop) {
			all = append(all, f)
		}
	}
	return
}

func active(fs []Finding) (a []Finding) {
	for _, f := range fs {
		if f.Status == "finding" {
			a = append(a, f)
		}
	}
	return
}

// Main dispatches `verif-sim <engine> <mode> flags`.
func Main(args []string) int {
	if len(args) < 2 {
		fmt.Fprintln(os.Stderr, "usage: verif-sim <property> worker|replay|shrink|confirm [flags]")
		return 2
	}
	e := engines[strings.ToLower(args[0])]
	if e == nil {
		fmt.Fprintf(os.Stderr, "verif-sim: no engine for %q\n", args[0])
		return 2
	}
	fs := flag.NewFlagSet(args[1], flag.ExitOnError)
	seed := fs.Uint64("seed", 1, "seed")
	from := fs.Int("from", 0, "first case index")
	to := fs.Int("to", 1, "one past the last case index")
	tier := fs.String("tier", "quick", "quick|thorough")
	out := fs.String("out", "", "result file")
	casef := fs.String("case", "", "case / replay file")
	findings := fs.String("findings", "", "known_findings.json")
	maxFail := fs.Int("maxfail", 3, "stop after this many failures")
	deadline := fs.Duration("deadline", 0, "stop generating new cases after this long")
	budget := fs.Duration("budget", 60*time.Second, "shrink time budget")
	samples := fs.Int("samples", 2, "cases to write out as samples")
	digestsFlag := fs.Bool("digests", false, "record a digest per case (determinism self-test)")
	_ = fs.Parse(args[2:])
	*out, *casef, *findings = abs(*out), abs(*casef), abs(*findings)
	known := loadFindings(*findings, e.ID())
	if cl, ok := e.(interface{ Close() }); ok {
		defer cl.Close()
	}

	switch args[1] {
	case "worker", "replay", "shrink", "confirm":
		// Process-global interpreter state that is initialised lazily (caches
		// of built-in generic functions, function lookup tables, ...) would
		// make a case behave differently as the first case of a fresh process
		// and as the n-th case of a worker. Every process therefore first
		// executes the same fixed warm-up cases; the determinism self-test
		// checks that this is enough.
		for i := 0; i < 24; i++ {
			e.Execute(e.Generate(0xC0FFEE, i, "quick", nil))
		}
	}
	switch args[1] {
	case "worker":
		return worker(e, *seed, *from, *to, *tier, *out, active(known), *maxFail, *deadline, *samples, *digestsFlag)
	case "replay":
		return replay(e, *casef)
	case "shrink":
		return shrink(e, *casef, *out, *budget)
	case "confirm":
		return confirm(e, known, *out)
	case "match":
		r := readReplay(*casef)
		id := ""
		for _, f := range active(known) {
			if e.Matches(r.Case, &r.Violation, f) {
				id = f.ID
				break
			}
		}
		writeJSON(*out, map[string]string{"finding": id})
		return 0
	case "meta":
		writeJSON(*out, e.Meta())
		return 0
	case "gen":
		// debugging aid: print the generated cases [from,to) as JSON lines
		for i := *from; i < *to; i++ {
			fmt.Fprintln(Out, string(e.Generate(uint64(*seed), i, *tier, active(known))))
		}
		return 0
	}
	fmt.Fprintf(os.Stderr, "verif-sim: unknown mode %q\n", args[1])
	return 2
}

func writeJSON(path string, v any) {
	b, err := json.MarshalIndent(v, "", " ")
	if err != nil {
		fmt.Fprintf(os.Stderr, "harness: %v\n", err)
		os.Exit(2)
	}
	if path == "" || path == "-" {
		fmt.Fprintln(Out, string(b))
		return
	}
	if err := os.WriteFile(path, b, 0o644); err != nil {
		fmt.Fprintf(os.Stderr, "harness: %v\n", err)
		os.Exit(2)
	}
}

func worker(e Engine, seed uint64, from, to int, tier, out string, avoid []Finding, maxFail int,
	deadline time.Duration, nsamples int, digests bool) int {
	start := time.Now()
	res := WorkerResult{Property: e.ID(), Seed: seed, From: from, To: to,
		Faults: map[string]int{}, Probes: map[string]int{}, Extra: map[string]int{}}
	seen := map[uint64]bool{}
	var sim time.Duration
	logh := uint64(14695981039346656037)
	for i := from; i < to; i++ {
		if deadline > 0 && time.Since(start) > deadline {
			res.To = i
			break
		}
		c := e.Generate(seed, i, tier, avoid)
		v := e.Execute(c)
		res.Cases++
		res.Evals += v.Evals
		addMap(res.Faults, v.Faults)
		addMap(res.Probes, v.Probes)
		addMap(res.Extra, v.Extra)
		sim += v.SimTime
		res.Steps += v.Steps
		cd := uint64(14695981039346656037)
		for _, h := range v.Hashes {
			seen[h] = true
			logh = (logh ^ h) * 1099511628211
			cd = (cd ^ h) * 1099511628211
		}
		cd = (cd ^ uint64(v.Evals)) * 1099511628211
		cd = (cd ^ uint64(v.Steps)) * 1099511628211
		if v.V != nil {
			for _, ch := range []byte(v.V.Class) {
				cd = (cd ^ uint64(ch)) * 1099511628211
			}
		}
		if digests {
			res.CaseDigests = append(res.CaseDigests, fmt.Sprintf("%016x", cd))
		}
		if len(res.Samples) < nsamples {
			res.Samples = append(res.Samples, c)
		}
		if v.V != nil {
			fc := c
			if v.Pinned != nil {
				fc = v.Pinned
			}
			res.Failures = append(res.Failures, Failure{Index: i, Case: fc, Violation: *v.V})
			logh = (logh ^ 0xdead) * 1099511628211
			if len(res.Failures) >= maxFail {
				res.To = i + 1
				break
			}
		}
	}
	res.Hashes = make([]uint64, 0, len(seen))
	for h := range seen {
		res.Hashes = append(res.Hashes, h)
	}
	sort.Slice(res.Hashes, func(i, j int) bool { return res.Hashes[i] < res.Hashes[j] })
	res.SimTimeS = sim.Seconds()
	res.WallS = time.Since(start).Seconds()
	res.LogHash = fmt.Sprintf("%016x", logh)
	writeJSON(out, res)
	return 0
}

func readReplay(path string) Replay {
	b, err := os.ReadFile(path)
	if err != nil {
		fmt.Fprintf(os.Stderr, "harness: %v\n", err)
		os.Exit(2)
	}
	var r Replay
	if err := json.Unmarshal(b, &r); err != nil || r.Case == nil {
		fmt.Fprintf(os.Stderr, "harness: %s is not a replay file\n", path)
		os.Exit(2)
	}
	return r
}

// replay executes the case of a replay file. Exit 1 and a REPRODUCED line
// when the recorded violation class shows again, 0 when the run is clean, 3
// when a different violation shows.
func replay(e Engine, path string) int {
	r := readReplay(path)
	v := e.Execute(r.Case)
	if v.V == nil {
		fmt.Fprintf(Out, "CLEAN property=%s replay=%s\n", e.ID(), path)
		return 0
	}
	if r.Violation.Class != "" && v.V.Class != r.Violation.Class {
		fmt.Fprintf(Out, "DIFFERENT property=%s class=%s expected=%s detail=%s\n", e.ID(), v.V.Class, r.Violation.Class, v.V.Detail)
		return 3
	}
	fmt.Fprintf(Out, "REPRODUCED property=%s class=%s detail=%s\n", e.ID(), v.V.Class, v.V.Detail)
	return 1
}

func shrink(e Engine, path, out string, budget time.Duration) int {
	r := readReplay(path)
	start := time.Now()
	cur := r.Case
	v := e.Execute(cur)
	if v.V == nil {
		fmt.Fprintf(os.Stderr, "shrink: case does not fail in this process\n")
		return 2
	}
	if v.Pinned != nil {
		cur = v.Pinned
	}
	class := v.V.Class
	curV := *v.V
	execs := 1
	for improved := true; improved && time.Since(start) < budget; {
		improved = false
		for _, cand := range e.Shrink(cur) {
			if time.Since(start) > budget {
				break
			}
			cv := e.Execute(cand)
			execs++
			if cv.V != nil && cv.V.Class == class {
				cur = cand
				if cv.Pinned != nil {
					cur = cv.Pinned
				}
				curV = *cv.V
				improved = true
				break
			}
		}
	}
	r.Case = cur
	r.Violation = curV
	r.Note = fmt.Sprintf("minimised with %d executions in %.1fs", execs, time.Since(start).Seconds())
	writeJSON(out, r)
	return 0
}

// ConfirmResult reports which known findings reproduce.
type ConfirmResult struct {
	ID         string `json:"id"`
	Reproduced bool   `json:"reproduced"`
	Class      string `json:"class,omitempty"`
	Detail     string `json:"detail,omitempty"`
}

func confirm(e Engine, known []Finding, out string) int {
	var res []ConfirmResult
	for _, f := range known {
		if f.Confirm == nil {
			continue
		}
		v := e.Execute(f.Confirm)
		cr := ConfirmResult{ID: f.ID}
		if v.V != nil {
			cr.Class, cr.Detail = v.V.Class, v.V.Detail
			c := f.Confirm
			if v.Pinned != nil {
				c = v.Pinned
			}
			cr.Reproduced = e.Matches(c, v.V, f)
		}
		res = append(res, cr)
	}
	writeJSON(out, res)
	return 0
}
