// Added to package slip by the verification overlay only (never part of a
// normal build).

package slip

// VerifResetPrinter returns the pretty printer's lazily grown, process-global
// indentation buffer to its initial state, so that whether a case makes it
// grow - an unsynchronised write that the access probes watch - does not
// depend on the cases the process executed before.
func VerifResetPrinter() { spaces = []byte{'\n'} }
