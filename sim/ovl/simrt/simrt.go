// Package simrt is the seam between instrumented ohler55/slip code and the
// deterministic simulator in /verif. It is never part of the shipped module:
// the verification checks add it to the build with `go build -overlay` as
// github.com/ohler55/slip/simrt, and the instrumenter rewrites goroutine
// starts, channel operations, mutex operations and clock reads in the slip
// packages into calls of the functions below.
//
// With no Runtime installed every function performs the real operation, so
// the same binary can also run un-simulated reference executions.
package simrt

import (
	"runtime"
	"reflect"
	"sync"
	"sync/atomic"
	"time"
	"unsafe"
)

// Runtime is implemented by the simulator (verif/sim/simkit/sched).
type Runtime interface {
	Go(fn func())
	Yield(site string)
	Lock(l sync.Locker, site string)
	Unlock(l sync.Locker)
	TryLock(l TryLocker, site string) bool
	RLock(l *sync.RWMutex, site string)
	RUnlock(l *sync.RWMutex)
	CondWait(c *sync.Cond, site string)
	CondSignal(c *sync.Cond, all bool)
	Send(ch reflect.Value, v reflect.Value, site string)
	Recv(ch reflect.Value, site string) (reflect.Value, bool)
	Close(ch reflect.Value)
	Select(cases []reflect.SelectCase, site string) (int, reflect.Value, bool)
	Sleep(d time.Duration)
	After(d time.Duration) <-chan time.Time
	Tick(d time.Duration) <-chan time.Time
	Now() time.Time
	// MapAccess announces that the running task is about to read or write
	// the Go map at p. With window set the access is a write and the
	// runtime may hold the task at this point (an open "write window")
	// while other tasks run; any other task that announces an access to the
	// same map meanwhile is a data race on the map.
	MapAccess(p unsafe.Pointer, write, window bool, site string)
}

var rt Runtime

// Install makes r the active runtime; Install(nil) restores passthrough. It
// must only be called while no instrumented code is running.
func Install(r Runtime) { rt = r }

// Active reports whether a runtime is installed.
func Active() bool { return rt != nil }

// RealWG, when set, tracks goroutines started in passthrough mode (used by
// the auxiliary race sweep, which runs programs on the real runtime); a panic
// of such a goroutine is counted instead of ending the process.
var (
	RealWG     *sync.WaitGroup
	RealPanics atomic.Int64
)

// Go replaces a go statement.
func Go(fn func()) {
	if rt == nil {
		if wg := RealWG; wg != nil {
			wg.Add(1)
			go func() {
				defer wg.Done()
				defer func() {
					if recover() != nil {
						RealPanics.Add(1)
					}
				}()
				fn()
			}()
			return
		}
		go fn()
		return
	}
	rt.Go(fn)
}

// Yield is a scheduling point without any other effect.
func Yield(site string) {
	if rt != nil {
		rt.Yield(site)
	}
}

// Lock replaces l.Lock().
func Lock(l sync.Locker, site string) {
	if rt == nil {
		l.Lock()
		return
	}
	rt.Lock(l, site)
}

// Unlock replaces l.Unlock().
func Unlock(l sync.Locker) {
	if rt == nil {
		l.Unlock()
		return
	}
	rt.Unlock(l)
}

// TryLocker is a lock with TryLock (sync.Mutex, sync.RWMutex, slip.Locker).
type TryLocker interface {
	sync.Locker
	TryLock() bool
}

// TryLock replaces l.TryLock().
func TryLock(l TryLocker, site string) bool {
	if rt == nil {
		return l.TryLock()
	}
	return rt.TryLock(l, site)
}

// RLock replaces l.RLock() of a sync.RWMutex (Lock/Unlock of an RWMutex go
// through Lock/Unlock above).
func RLock(l *sync.RWMutex, site string) {
	if rt == nil {
		l.RLock()
		return
	}
	rt.RLock(l, site)
}

// RUnlock replaces l.RUnlock().
func RUnlock(l *sync.RWMutex) {
	if rt == nil {
		l.RUnlock()
		return
	}
	rt.RUnlock(l)
}

func valueFor(ch reflect.Value, v any) reflect.Value {
	if v == nil {
		return reflect.Zero(ch.Type().Elem())
	}
	return reflect.ValueOf(v)
}

// Send replaces ch <- v.
func Send(ch any, v any, site string) {
	cv := reflect.ValueOf(ch)
	if rt == nil {
		cv.Send(valueFor(cv, v))
		return
	}
	rt.Send(cv, valueFor(cv, v), site)
}

func conv[T any](rv reflect.Value) (v T) {
	if rv.IsValid() {
		v, _ = rv.Interface().(T)
	}
	return
}

// Recv replaces <-ch.
func Recv[T any](ch <-chan T, site string) T {
	if rt == nil {
		return <-ch
	}
	rv, _ := rt.Recv(reflect.ValueOf(ch), site)
	return conv[T](rv)
}

// Recv2 replaces v, ok := <-ch.
func Recv2[T any](ch <-chan T, site string) (T, bool) {
	if rt == nil {
		v, ok := <-ch
		return v, ok
	}
	rv, ok := rt.Recv(reflect.ValueOf(ch), site)
	return conv[T](rv), ok
}

// Close replaces close(ch).
func Close(ch any) {
	cv := reflect.ValueOf(ch)
	if rt == nil {
		cv.Close()
		return
	}
	rt.Close(cv)
}

// Select replaces reflect.Select.
func Select(cases []reflect.SelectCase) (int, reflect.Value, bool) {
	if rt == nil {
		return reflect.Select(cases)
	}
	return rt.Select(cases, "reflect.Select")
}

// Case is one clause of a rewritten select statement.
type Case struct {
	Send bool
	Chan any
	Val  any
}

// SelectStmt replaces a select statement: it returns the index of the chosen
// case (len(cases) for default), the received value and the ok flag.
func SelectStmt(cases []Case, hasDefault bool, site string) (int, reflect.Value, bool) {
	rc := make([]reflect.SelectCase, 0, len(cases)+1)
	for _, c := range cases {
		cv := reflect.ValueOf(c.Chan)
		if c.Send {
			var sv reflect.Value
			if cv.IsValid() && !cv.IsNil() {
				sv = valueFor(cv, c.Val)
			}
			rc = append(rc, reflect.SelectCase{Dir: reflect.SelectSend, Chan: cv, Send: sv})
		} else {
			rc = append(rc, reflect.SelectCase{Dir: reflect.SelectRecv, Chan: cv})
		}
	}
	if hasDefault {
		rc = append(rc, reflect.SelectCase{Dir: reflect.SelectDefault})
	}
	if rt == nil {
		return reflect.Select(rc)
	}
	return rt.Select(rc, site)
}

// Assign stores a received value into *p (used for `case v = <-ch`).
func Assign[T any](p *T, rv reflect.Value) { *p = conv[T](rv) }

// Conv converts a received value to the element type of ch (used for
// `case v := <-ch`).
func Conv[T any](ch <-chan T, rv reflect.Value) T { return conv[T](rv) }

func mapPtr[M ~map[K]V, K comparable, V any](m M) unsafe.Pointer {
	return *(*unsafe.Pointer)(unsafe.Pointer(&m))
}

// MapW is placed before a statement that stores into or deletes from the
// shared map m (rule R8).
func MapW[M ~map[K]V, K comparable, V any](m M, site string) {
	if rt != nil && m != nil {
		rt.MapAccess(mapPtr(m), true, true, site)
	}
}

// MapWQ is MapW without a scheduling point (inside loops over process-global
// tables, where the number of scheduling points must not depend on the size
// of the table).
func MapWQ[M ~map[K]V, K comparable, V any](m M, site string) {
	if rt != nil && m != nil {
		rt.MapAccess(mapPtr(m), true, false, site)
	}
}

// MapR is placed before a statement that reads the shared map m.
func MapR[M ~map[K]V, K comparable, V any](m M, site string) {
	if rt != nil && m != nil {
		rt.MapAccess(mapPtr(m), false, false, site)
	}
}

// VarW is placed before an assignment to the shared slice variable *p
// (x = append(x, ...), x = x[:n]); VarR before a range over it. They use the
// same write-window rule as the map probes, on the address of the variable.
func VarW[T any](p *T, site string) {
	if rt != nil {
		rt.MapAccess(unsafe.Pointer(p), true, true, site)
	}
}

// VarWQ is VarW without a scheduling point.
func VarWQ[T any](p *T, site string) {
	if rt != nil {
		rt.MapAccess(unsafe.Pointer(p), true, false, site)
	}
}

// VarR is placed before a range over the shared slice variable *p.
func VarR[T any](p *T, site string) {
	if rt != nil {
		rt.MapAccess(unsafe.Pointer(p), false, false, site)
	}
}

// Sleep replaces time.Sleep.
func Sleep(d time.Duration) {
	if rt == nil {
		time.Sleep(d)
		return
	}
	rt.Sleep(d)
}

// After replaces time.After.
func After(d time.Duration) <-chan time.Time {
	if rt == nil {
		return time.After(d)
	}
	return rt.After(d)
}

// Tick replaces time.Tick.
func Tick(d time.Duration) <-chan time.Time {
	if rt == nil {
		return time.Tick(d)
	}
	return rt.Tick(d)
}

// Now replaces time.Now.
func Now() time.Time {
	if rt == nil {
		return time.Now()
	}
	return rt.Now()
}

// Since replaces time.Since.
func Since(t time.Time) time.Duration { return Now().Sub(t) }

// Procs, when > 0, is the number of processors the simulated program sees
// (rule R11); engines draw it per case.
var Procs int

// GOMAXPROCS replaces runtime.GOMAXPROCS: a query (n < 1) answers with the
// simulated number of processors, a setting changes it.
func GOMAXPROCS(n int) int {
	if Procs <= 0 {
		return runtime.GOMAXPROCS(n)
	}
	prev := Procs
	if n > 0 {
		Procs = n
	}
	return prev
}

// NumCPU replaces runtime.NumCPU.
func NumCPU() int {
	if Procs <= 0 {
		return runtime.NumCPU()
	}
	return Procs
}

// CondWait replaces (*sync.Cond).Wait: the lock is released, the task waits
// to be signalled and takes the lock again - all decided by the simulator.
func CondWait(c *sync.Cond, site string) {
	if rt == nil {
		c.Wait()
		return
	}
	rt.CondWait(c, site)
}

// CondSignal replaces (*sync.Cond).Signal.
func CondSignal(c *sync.Cond) {
	if rt == nil {
		c.Signal()
		return
	}
	rt.CondSignal(c, false)
}

// CondBroadcast replaces (*sync.Cond).Broadcast.
func CondBroadcast(c *sync.Cond) {
	if rt == nil {
		c.Broadcast()
		return
	}
	rt.CondSignal(c, true)
}
