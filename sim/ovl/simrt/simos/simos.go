// Package simos interposes on the file-system calls of the instrumented slip
// packages (pkg/repl, pkg/cl open/with-open-file, file-stream.go). The disk is
// a real directory (tmpfs when available) so POSIX semantics of append,
// truncate and rename are the kernel's own; what is simulated is the process:
// every mutating call is a numbered step, and a Plan can kill the simulated
// process before/after a chosen step or make a chosen step fail.
//
// With no session active every function is the plain os call.
package simos

import (
	"errors"
	"fmt"
	"io/fs"
	"os"
	"sync"
	"syscall"
)

// Crash is the panic value used for a simulated process death.
type Crash struct {
	Step  int
	After bool
	Op    string
	Path  string
}

func (c Crash) String() string {
	side := "before"
	if c.After {
		side = "after"
	}
	return fmt.Sprintf("simulated process death %s step %d (%s %s)", side, c.Step, c.Op, c.Path)
}

// ErrDead is returned for mutating calls made by a dead incarnation.
var ErrDead = errors.New("simos: process is dead")

// Plan is the fault plan of one simulated process life.
type Plan struct {
	// CrashStep kills the process at the given mutating step (1-based); 0 = never.
	CrashStep int
	// CrashAfter selects the side: false = the step is not performed, true =
	// the step is performed completely and then the process dies.
	CrashAfter bool
	// ErrStep makes the ErrStep-th step whose kind is listed in ErrOps (any
	// kind when ErrOps is empty) fail with Err instead of being performed;
	// 0 = never. With ErrSticky every later such step fails too ("disk stays
	// full").
	ErrStep   int
	ErrSticky bool
	ErrOps    []string
	Err       error
	// ShortWrite, when an injected error hits a write of n>1 bytes, lets the
	// first n/2 bytes reach the file before the error is returned.
	ShortWrite bool
}

// StepRec records one mutating step.
type StepRec struct {
	N    int    `json:"n"`
	Op   string `json:"op"`
	Path string `json:"path"`
	Note string `json:"note,omitempty"`
}

type handle struct {
	path   string
	closed bool
	step   int
	write  bool
}

// Session is one simulated process life.
type Session struct {
	mu      sync.Mutex
	plan    Plan
	Steps   int
	Log     []StepRec
	dead    bool
	errOn   bool
	matched int
	handles map[*os.File]*handle
	order   []*os.File
	// Fired counts faults that actually fired.
	CrashFired bool
	ErrFired   int
	// KeepLog controls whether Log is filled.
	KeepLog bool
	// background work: goroutines started by the code under test (rule R13)
	bg      []*bgTask
	running *bgTask // the background task that holds the run token, nil = the foreground
	bgMode  int
	bgPanic any
	crash   *Crash
}

// bgTask is a goroutine of the code under test. It runs only while the
// foreground has handed it the run token, for a granted number of
// file-system steps.
type bgTask struct {
	resume chan int // steps granted; -1 = until it ends
	yield  chan struct{}
	budget int
	done   bool
}

// Background modes: when does a goroutine started by the code under test run?
const (
	BgEager      = 0 // to its end, at once (as if the call were synchronous)
	BgDeferred   = 1 // only when somebody waits for it - never, if the process dies first
	BgInterleave = 2 // one file-system step before each file-system step of the foreground
)

// SetBgMode selects the background mode of the session.
func (s *Session) SetBgMode(m int) { s.bgMode = m }

// Go replaces a go statement of the instrumented files (rule R13). Without a
// session it is the go statement.
func Go(fn func()) {
	s := cur
	if s == nil {
		go fn()
		return
	}
	if s.dead {
		return // a dead process starts nothing
	}
	t := &bgTask{resume: make(chan int), yield: make(chan struct{})}
	s.bg = append(s.bg, t)
	go func() {
		t.budget = <-t.resume
		defer func() {
			if r := recover(); r != nil {
				if _, isCrash := r.(Crash); !isCrash {
					s.bgPanic = r
				}
			}
			t.done = true
			t.yield <- struct{}{}
		}()
		// (also when the process is dead by now: every file-system call is
		// refused then, but the function's own deferred bookkeeping - a
		// WaitGroup that outlives the simulated process - runs)
		fn()
	}()
	if s.bgMode == BgEager {
		s.runBg(-1)
		s.surface()
	}
}

// WGWait replaces wg.Wait() of the instrumented files: whatever background
// work is pending runs to its end first.
func WGWait(wg *sync.WaitGroup) {
	if s := cur; s != nil && s.running == nil {
		s.runBg(-1)
		s.surface()
	}
	wg.Wait()
}

// runBg hands the run token to every pending background task in turn, each
// for the given number of file-system steps. Foreground only, s.mu not held.
func (s *Session) runBg(budget int) {
	if s.running != nil {
		return
	}
	live := s.bg[:0]
	for _, t := range s.bg {
		if t.done {
			continue
		}
		s.running = t
		t.resume <- budget
		<-t.yield
		s.running = nil
		if !t.done {
			live = append(live, t)
		}
	}
	s.bg = live
}

// surface lets the foreground see what happened in the background: a process
// death there is the death of the process, a Go panic there ends the program.
func (s *Session) surface() {
	if p := s.bgPanic; p != nil {
		s.bgPanic = nil
		panic(p)
	}
	if s.dead && s.crash != nil {
		panic(*s.crash)
	}
}

// Drain lets pending background work run to its end: what a clean exit that
// waits for its goroutines does.
func (s *Session) Drain() {
	if s.dead {
		return
	}
	func() {
		defer func() { _ = recover() }()
		s.runBg(-1)
		s.surface()
	}()
}

// Abandon ends the background tasks of a finished or dead incarnation: each
// is resumed once with the process marked dead, so that its next file-system
// call unwinds it.
func (s *Session) Abandon() {
	was := s.dead
	s.dead = true
	s.runBg(-1)
	s.dead = was
	s.bgPanic = nil
}

var cur *Session

// knobs are tuning constants of the code under test (buffer sizes) that a
// case may set to unusual values; unset knobs keep the value in the source.
var knobs = map[string]int{}

// SetKnob sets (v > 0) or clears (v <= 0) a knob.
func SetKnob(name string, v int) {
	if v > 0 {
		knobs[name] = v
	} else {
		delete(knobs, name)
	}
}

// Knob returns the value of the knob, or def when it is not set.
func Knob(name string, def int) int {
	if v, ok := knobs[name]; ok {
		return v
	}
	return def
}

// Begin starts a session. Only one session can be active.
func Begin(p Plan) *Session {
	s := &Session{plan: p, handles: map[*os.File]*handle{}, KeepLog: true}
	cur = s
	return s
}

// End finishes the session: handles that are still open are closed for real
// and their paths returned.
func (s *Session) End() (leaked []string) {
	s.Abandon()
	s.mu.Lock()
	defer s.mu.Unlock()
	for _, f := range s.order {
		h := s.handles[f]
		if !h.closed {
			if f.Close() == nil {
				if !s.dead {
					leaked = append(leaked, h.path)
				}
			}
			h.closed = true
		}
	}
	if cur == s {
		cur = nil
	}
	return
}

// ArmCrash schedules a process death at the n-th mutating step counted from
// now (n >= 1).
func (s *Session) ArmCrash(n int, after bool) {
	s.plan.CrashStep = s.Steps + n
	s.plan.CrashAfter = after
}

// ArmError makes the n-th mutating step counted from now fail once with err
// (the step is not performed).
func (s *Session) ArmError(n int, err error) {
	s.plan.ErrStep = s.matched + n
	s.plan.ErrOps = nil
	s.plan.ErrSticky = false
	s.plan.Err = err
	s.errOn = false
}

// SetShortWrite makes an injected write error store the first half of the
// bytes before failing.
func (s *Session) SetShortWrite(on bool) { s.plan.ShortWrite = on }

// Dead reports whether the simulated process has died.
func (s *Session) Dead() bool { return s.dead }

// OpenHandles returns the paths of tracked handles that are open right now
// (decided by the real descriptor state, not by bookkeeping).
func (s *Session) OpenHandles() (paths []string) {
	s.mu.Lock()
	defer s.mu.Unlock()
	for _, f := range s.order {
		h := s.handles[f]
		if h.closed {
			continue
		}
		if _, err := f.Stat(); err != nil {
			h.closed = true
			continue
		}
		paths = append(paths, h.path)
	}
	return
}

func opMatches(ops []string, op string) bool {
	if len(ops) == 0 {
		return true
	}
	for _, o := range ops {
		if o == op {
			return true
		}
	}
	return false
}

// before is called ahead of a mutating step. It returns a non-nil error when
// the step must not be performed.
func (s *Session) before(op, path string) (n int, err error) {
	if t := s.running; t != nil {
		// a background task's step: give the token back when the grant is used up
		if t.budget == 0 {
			s.mu.Unlock()
			t.yield <- struct{}{}
			t.budget = <-t.resume
			s.mu.Lock()
		}
		if t.budget > 0 {
			t.budget--
		}
	} else if s.bgMode == BgInterleave && len(s.bg) > 0 && !s.dead {
		s.mu.Unlock()
		s.runBg(1)
		s.mu.Lock()
		s.surface()
	}
	if s.dead {
		return 0, ErrDead
	}
	s.Steps++
	n = s.Steps
	if s.KeepLog {
		s.Log = append(s.Log, StepRec{N: n, Op: op, Path: path})
	}
	if s.plan.CrashStep == n && !s.plan.CrashAfter {
		s.die(n, false, op, path)
	}
	if s.plan.ErrStep != 0 && opMatches(s.plan.ErrOps, op) {
		s.matched++
		if s.matched == s.plan.ErrStep || (s.errOn && s.plan.ErrSticky) {
			s.errOn = true
			s.ErrFired++
			if s.KeepLog {
				s.Log[len(s.Log)-1].Note = "injected error"
			}
			e := s.plan.Err
			if e == nil {
				e = syscall.ENOSPC
			}
			return n, &fs.PathError{Op: op, Path: path, Err: e}
		}
	}
	return n, nil
}

func (s *Session) after(n int, op, path string) {
	if s.plan.CrashStep == n && s.plan.CrashAfter && !s.dead {
		s.die(n, true, op, path)
	}
}

func (s *Session) die(n int, after bool, op, path string) {
	s.dead = true
	s.CrashFired = true
	if s.KeepLog {
		s.Log[len(s.Log)-1].Note = "process death"
		if after {
			s.Log[len(s.Log)-1].Note = "process death after"
		}
	}
	// The kernel closes the descriptors of a dead process.
	for _, f := range s.order {
		h := s.handles[f]
		if !h.closed {
			_ = f.Close()
			h.closed = true
		}
	}
	c := Crash{Step: n, After: after, Op: op, Path: path}
	s.crash = &c
	panic(c)
}

func (s *Session) track(f *os.File, path string, write bool) {
	s.handles[f] = &handle{path: path, step: s.Steps, write: write}
	s.order = append(s.order, f)
}

// OpenFile replaces os.OpenFile.
func OpenFile(name string, flag int, perm os.FileMode) (*os.File, error) {
	s := cur
	if s == nil {
		return os.OpenFile(name, flag, perm)
	}
	s.mu.Lock()
	defer s.mu.Unlock()
	mut := flag&(os.O_CREATE|os.O_TRUNC) != 0
	var n int
	if mut {
		var err error
		if n, err = s.before("open", name); err != nil {
			return nil, err
		}
	} else if s.dead {
		return nil, ErrDead
	}
	f, err := os.OpenFile(name, flag, perm)
	if err == nil {
		s.track(f, name, flag&(os.O_WRONLY|os.O_RDWR) != 0)
	}
	if mut {
		s.after(n, "open", name)
	}
	return f, err
}

// Open replaces os.Open.
func Open(name string) (*os.File, error) { return OpenFile(name, os.O_RDONLY, 0) }

// Create replaces os.Create.
func Create(name string) (*os.File, error) {
	return OpenFile(name, os.O_RDWR|os.O_CREATE|os.O_TRUNC, 0666)
}

// FWrite replaces f.Write for a *os.File.
func FWrite(f *os.File, b []byte) (int, error) {
	s := cur
	if s == nil {
		return f.Write(b)
	}
	s.mu.Lock()
	defer s.mu.Unlock()
	h := s.handles[f]
	if h == nil { // not opened through simos (stdout etc.)
		return f.Write(b)
	}
	if len(b) == 0 {
		if s.dead {
			return 0, ErrDead
		}
		return f.Write(b)
	}
	n, err := s.before("write", h.path)
	if err != nil {
		if s.plan.ShortWrite && 1 < len(b) && !errors.Is(err, ErrDead) {
			w, _ := f.Write(b[:len(b)/2])
			return w, err
		}
		return 0, err
	}
	w, err := f.Write(b)
	s.after(n, "write", h.path)
	return w, err
}

// FWriteString replaces f.WriteString.
func FWriteString(f *os.File, str string) (int, error) { return FWrite(f, []byte(str)) }

// FClose replaces f.Close for a *os.File. Closing does not change what is on
// disk, so it is a step (a death can be placed around it) but a dead
// incarnation's close is simply absorbed.
func FClose(f *os.File) error {
	s := cur
	if s == nil {
		return f.Close()
	}
	s.mu.Lock()
	defer s.mu.Unlock()
	h := s.handles[f]
	if h == nil {
		return f.Close()
	}
	if s.dead {
		return ErrDead
	}
	if h.closed {
		return f.Close() // reports os.ErrClosed as the real one would
	}
	if !h.write { // closing a read-only handle is not a step
		h.closed = true
		return f.Close()
	}
	n, err := s.before("close", h.path)
	if err != nil {
		// A failing close still releases the descriptor (as close(2) does).
		_ = f.Close()
		h.closed = true
		return err
	}
	err = f.Close()
	h.closed = true
	s.after(n, "close", h.path)
	return err
}

// Rename replaces os.Rename.
func Rename(oldpath, newpath string) error {
	s := cur
	if s == nil {
		return os.Rename(oldpath, newpath)
	}
	s.mu.Lock()
	defer s.mu.Unlock()
	n, err := s.before("rename", newpath)
	if err != nil {
		return err
	}
	err = os.Rename(oldpath, newpath)
	s.after(n, "rename", newpath)
	return err
}

// Remove replaces os.Remove.
func Remove(name string) error {
	s := cur
	if s == nil {
		return os.Remove(name)
	}
	s.mu.Lock()
	defer s.mu.Unlock()
	n, err := s.before("remove", name)
	if err != nil {
		return err
	}
	err = os.Remove(name)
	s.after(n, "remove", name)
	return err
}

// MkdirAll replaces os.MkdirAll. Creating a directory that exists is not a
// step.
func MkdirAll(path string, perm os.FileMode) error {
	s := cur
	if s == nil {
		return os.MkdirAll(path, perm)
	}
	if fi, err := os.Stat(path); err == nil && fi.IsDir() {
		return nil
	}
	s.mu.Lock()
	defer s.mu.Unlock()
	n, err := s.before("mkdir", path)
	if err != nil {
		return err
	}
	err = os.MkdirAll(path, perm)
	s.after(n, "mkdir", path)
	return err
}

// WriteFile replaces os.WriteFile; like the original it is open(O_TRUNC),
// one write, close - three steps.
func WriteFile(name string, data []byte, perm os.FileMode) error {
	if cur == nil {
		return os.WriteFile(name, data, perm)
	}
	f, err := OpenFile(name, os.O_WRONLY|os.O_CREATE|os.O_TRUNC, perm)
	if err != nil {
		return err
	}
	_, err = FWrite(f, data)
	if err1 := FClose(f); err1 != nil && err == nil {
		err = err1
	}
	return err
}

// ReadFile replaces os.ReadFile.
func ReadFile(name string) ([]byte, error) {
	if s := cur; s != nil && s.dead {
		return nil, ErrDead
	}
	return os.ReadFile(name)
}

// Stat replaces os.Stat.
func Stat(name string) (os.FileInfo, error) {
	if s := cur; s != nil && s.dead {
		return nil, ErrDead
	}
	return os.Stat(name)
}

// FileIO stands for a *os.File that the code under test hands to an
// interface-typed parameter: what is written, read and closed through the
// interface passes the same interposition as direct calls.
type FileIO struct{ F *os.File }

// IO wraps f.
func IO(f *os.File) *FileIO { return &FileIO{F: f} }

func (x *FileIO) Write(b []byte) (int, error)       { return FWrite(x.F, b) }
func (x *FileIO) WriteString(s string) (int, error) { return FWriteString(x.F, s) }
func (x *FileIO) Close() error                      { return FClose(x.F) }

// Read delivers at most Knob("shortread") bytes per call when that knob is
// set: a reader may always return fewer bytes than asked for.
func (x *FileIO) Read(b []byte) (int, error) {
	if k := Knob("shortread", 0); k > 0 && len(b) > k {
		b = b[:k]
	}
	return x.F.Read(b)
}
