package repl

import "github.com/ohler55/slip"

// VerifReset is added by the verification overlay only. It puts the package's
// unexported globals back to their process-start values so that a simulated
// restart inside one OS process is exact. restoreVars is called while writing
// of config.lisp is switched off; the engine uses it to put Lisp variables
// back to their defaults.
func VerifReset(restoreVars func()) {
	configFilename = "" // stops updateConfigFile while defaults are restored
	historyFilename = ""
	TheHistory = History{}
	TheStash = Stash{}
	Interactive = false
	evalOnClose = false
	externalEditor = ""
	editorFlags = nil
	replReader = &termReader{}
	stashLoadPath = slip.List{
		slip.String("~/.config/slip"),
		slip.String("~/.slip"),
		slip.String("."),
	}
	defaultStashName = "stash.lisp"
	if restoreVars != nil {
		restoreVars()
	}
	// Same as init().
	if scope.Get(slip.Symbol(printANSI)) != nil {
		warnPrefix = "\x1b[31m"
		setPrompt(slip.String("\x1b[1;94m▶ \x1b[m"))
		matchColor = "\x1b[1m"
	} else {
		warnPrefix = ""
		setPrompt(slip.String("* "))
		matchColor = ""
	}
	modifiedVars = map[string]bool{}
	form1, form2, form3 = nil, nil, nil
	value1, value2, value3 = nil, nil, nil
}

// VerifConfigFilename exposes the config file currently written to.
func VerifConfigFilename() string { return configFilename }
