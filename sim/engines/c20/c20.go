// Package c20 decides property C20: REPL history, stash and settings persist
// intact across restarts and simulated process deaths.
//
// Real code: pkg/repl (History, Stash, Form, LineReader, clear-history,
// clear-stash, the set hook and updateConfigFile, SetConfigDir, Run) running
// on a real tmpfs directory. Simulated: the process (death at every
// file-system step through simos), restarts (VerifReset + the real start-up
// path) and the terminal (forms are handed to TheHistory.Add exactly as the
// editor does).
package c20

import (
	"encoding/json"
	"fmt"
	"hash/fnv"
	"io"
	"os"
	"path/filepath"
	"strings"
	"syscall"

	"github.com/ohler55/slip"
	_ "github.com/ohler55/slip/pkg"
	"github.com/ohler55/slip/pkg/repl"
	"github.com/ohler55/slip/simrt/simos"
	"verif/sim/harness"
	"verif/sim/simkit/tape"
)

// Op is one user action.
type Op struct {
	K    string   `json:"k"` // hadd hedit hclear limit sadd sclear use set restart
	Form []string `json:"form,omitempty"`
	A    int      `json:"a,omitempty"`
	B    int      `json:"b,omitempty"`
	Var  string   `json:"var,omitempty"`
	Val  string   `json:"val,omitempty"` // Lisp source of the value
	// Aim (ranged clears): the end of the range is taken relative to the size
	// the list has when the operation runs - at least the older half goes,
	// at least one form stays and is rewritten
	Aim bool `json:"aim,omitempty"`
}

// Pin fixes the fault of a case: a process death at the Step-th file-system
// step of operation Op.
type Pin struct {
	Op    int  `json:"op"`
	Step  int  `json:"step"`
	After bool `json:"after"`
	// Err: instead of a process death the step fails with ENOSPC
	Err bool `json:"err,omitempty"`
	// Short: the failing write stores the first half of its bytes (disk full
	// in the middle of a write); judged at the next start only
	Short bool `json:"short,omitempty"`
}

// Case is a session history.
type Case struct {
	Ops []Op `json:"ops"`
	Pin *Pin `json:"pin,omitempty"`
	// SafeRanged: ranged clears that would hit known finding C20-ranged-clear
	// (start > 0, or an end so small that nil entries stay inside the kept
	// part) are skipped when the operation is reached; the others - which
	// leave a consistent list on the unchanged tree - are executed.
	SafeRanged bool `json:"safe_ranged,omitempty"`
	// NoFaults restricts the case to the fault-free pass.
	NoFaults bool `json:"no_faults,omitempty"`
	// LineBuf, when > 0, is the buffer size of the line reader that loads the
	// history and stash files (a tuning constant, 4096 in the source): with a
	// small buffer the block boundaries of the loader fall inside and exactly
	// at the end of lines of ordinary files.
	LineBuf int `json:"line_buf,omitempty"`
	// Blank, when > 0: the history file of the first start already holds that
	// many empty lines (Load skips lines that are blank - the project's own
	// fixtures contain them; seeded change C20-n1: a repair of a torn tail
	// that does not count them)
	Blank int `json:"blank,omitempty"`
	// Bg: when goroutines started by the code under test run (simos.BgEager /
	// BgDeferred / BgInterleave; rule R13). The unchanged tree starts none.
	Bg int `json:"bg,omitempty"`
	// ShortRead, when > 0: the files are read at most that many bytes per
	// Read call (a reader may always deliver less than asked for).
	ShortRead int `json:"short_read,omitempty"`
}

type engine struct {
	rangedSkipped, rangedPartial int
	safeRanged                   bool // of the case being executed
	blank                        int  // of the case being executed
	bg                           int  // of the case being executed
	shortWrite bool
	base       string
	n          int
	defaults   map[string]slip.Object
}

func init() { harness.Register(&engine{}) }

func (e *engine) ID() string { return "C20" }

func (e *engine) Meta() harness.Meta {
	return harness.Meta{
		Level: "fault_enumeration",
		Rule: "a case is a seeded session history (history adds incl. repeats, clears, limit changes, stash adds, setting changes, restarts; " +
			"limit 3..40 so compaction is reached); it is executed once fault-free against the history model and then once per " +
			"(operation, file-system step, before/after) with a simulated process death there, a restart and the rest of the session. " +
			"evaluations = simulated process-life sequences; distinct_nontrivial = distinct fingerprints (operation kind, death point, " +
			"loaded history and stash) of executions in which a restart or a death happened",
		Real: []string{"pkg/repl History/Stash/Form/LineReader/clear-history/clear-stash/set hook/updateConfigFile/SetConfigDir/Run",
			"slip reader and evaluator", "the kernel's tmpfs (append, truncate, rename semantics)"},
		Stub: []string{"process death and restart (simos step interception + VerifReset inside one OS process)",
			"terminal/editor (forms are passed to TheHistory.Add / TheStash.Add as the editor does)"},
		Assumptions: []string{
			"process death, not power loss: a completed write(2) survives (as the property states)",
			"an in-process restart (VerifReset + ZeroMods + SetConfigDir + Run) equals a fresh process; violations are replayed in a fresh process before being reported",
			"stashed/entered forms are readable Lisp (non-ASCII only in strings, |symbols| and characters)",
		},
		FaultKinds:    []string{"process_death", "io_error"},
		QuickCases:    800,
		ThoroughCases: 20000,
	}
}

var watched = []string{
	"*repl-prompt*", "*repl-warning-prefix*", "*repl-match-color*", "*repl-history-limit*",
	"*repl-eval-on-close*", "*repl-help-box*", "*repl-editor-flags*", "*repl-external-editor*",
	"*print-base*", "*print-radix*", "*print-right-margin*", "*print-pretty*", "*print-case*",
	"*print-length*", "*print-level*", "*print-lines*", "*print-miser-width*", "*print-prec*",
	"*print-escape*", "*print-readably*", "*print-array*", "*print-circle*", "*print-gensym*",
	"*print-lambda*", "*print-ansi*",
	"*bag-time-format*", "*bag-time-wrap*",
}

var settingValues = map[string][]string{
	"*repl-prompt*":          {`"> "`, `"λ "`, `"\u001b[1m$ \u001b[m"`, `"a\"b "`, `"back\\slash "`, `"slip> "`},
	"*repl-warning-prefix*":  {`"! "`, `"\u001b[31m"`, `""`},
	"*repl-match-color*":     {`"\u001b[7m"`, `"\u001b[1m"`, `""`},
	"*repl-eval-on-close*":   {"t", "nil"},
	"*repl-editor-flags*":    {`("-nw")`, `("-nw" "two words" "q\"uote")`, "nil"},
	"*repl-external-editor*": {`"vi"`, `"/usr/bin/my editor"`, `""`},
	"*repl-help-box*":        {"t", "nil"},
	"*print-base*":           {"2", "8", "10", "16"},
	"*print-radix*":          {"t", "nil"},
	"*print-right-margin*":   {"40", "72", "120"},
	"*print-pretty*":         {"t", "nil"},
	"*print-case*":           {":upcase", ":downcase", ":capitalize"},
	"*print-length*":         {"nil", "5", "100"},
	"*print-level*":          {"nil", "3"},
	"*print-lines*":          {"nil", "10"},
	"*print-miser-width*":    {"0", "20"},
	"*print-prec*":           {"3", "7", "-1"},
	"*print-escape*":         {"t", "nil"},
	"*print-readably*":       {"t", "nil"},
	"*print-array*":          {"t", "nil"},
	"*print-circle*":         {"t", "nil"},
	"*print-gensym*":         {"t", "nil"},
	"*print-lambda*":         {"t", "nil"},
	"*print-ansi*":           {"t", "nil"},
	"*bag-time-format*":      {`"2006-01-02"`, `"time"`, `"second"`},
	"*bag-time-wrap*":        {`"time"`, `"@"`},
}

// ---- generation ----

// Non-ASCII text appears where the slip reader accepts it: in strings,
// |symbols| and character literals (a bare non-ASCII symbol is a parse error
// in slip, so a user could never have evaluated such a form).
var atoms = []string{"x", "foo", "bar-baz", "|λ|", "|größe x|", `"日本"`, "42", "-7", "3.5", `"str"`, `"a b"`, `"üñí"`,
	":key", "'q", "#\\a", "#\\ü", "nil", "t", `"semi;colon"`, `"q\"uote"`,
	// delimiters where they do not delimit: inside block comments, |symbols| and strings
	"#| todo :( |#", "#| a ) b |#", "|open(|", "|close) x|", `"paren ( in string"`, `") ("`, `"#| not a comment"`, "#| \" |#", "|semi;|",
	// what looks like an escape sequence of the file format (lines are joined with
	// TAB; seeded change C20-o2: a TAB written as backslash-t and read back
	// without the backslash itself being escaped)
	"#\\tab", `"col\tcol"`, `"c:\\temp\\new"`, `"line\nline"`,
	"; trailing comment"}
var heads = []string{"defun", "let", "+", "list", "setq", "format", "when", "car", "princ"}

func avoids(avoid []harness.Finding, trig string) bool {
	for _, f := range avoid {
		if f.Trigger == trig {
			return true
		}
	}
	return false
}

// genForm draws forms until one is a single readable form (the generator
// places delimiters inside comments, |symbols| and strings; what the slip
// reader does not accept as one form could not have been entered).
func genForm(r *tape.Rand, avoid []harness.Finding, stash bool) []string {
	for try := 0; try < 20; try++ {
		if f := genForm1(r, avoid, stash); readable(f) {
			if !stash && r.Pct(5) {
				// a history entry whose last line is empty (the editor's
				// form after a final line break; seeded change C20-l2)
				f = append(f, "")
			}
			return f
		}
	}
	return []string{"(list 1 2)"}
}

// fatForms (set per case by Generate): every form carries a string of 100-700
// bytes, so that history and stash files span several 4096-byte blocks.
var fatForms bool

func genForm1(r *tape.Rand, avoid []harness.Finding, stash bool) []string {
	nlines := 1 + r.Intn(4)
	if r.Pct(50) {
		nlines = 1
	}
	ntok := 2*nlines + r.Intn(5) // every line gets at least one token
	toks := []string{"(" + heads[r.Intn(len(heads))]}
	for i := 0; i < ntok; i++ {
		a := atoms[r.Intn(len(atoms)-1)] // the last atom is the comment, placed below
		if r.Pct(15) {
			a = "(" + heads[r.Intn(len(heads))] + " " + a + ")"
		}
		toks = append(toks, a)
	}
	if r.Pct(4) {
		// a line longer than the line reader's buffer (4096 bytes)
		k := 1 + r.Intn(len(toks)-1)
		toks[k] = `"` + strings.Repeat("long text ", 300+r.Intn(700)) + `"`
	} else if fatForms {
		// a session whose files grow past several 4096-byte blocks
		k := 1 + r.Intn(len(toks)-1)
		toks[k] = `"` + strings.Repeat("wide ", 20+r.Intn(120)) + `"`
	}
	toks[len(toks)-1] += ")"
	// distribute tokens over lines
	lines := make([]string, nlines)
	for i := range lines {
		lo, hi := i*len(toks)/nlines, (i+1)*len(toks)/nlines
		sep := " "
		if r.Pct(8) && !avoids(avoid, "tab") {
			sep = "\t"
		}
		lines[i] = strings.Join(toks[lo:hi], sep)
		if i < nlines-1 && r.Pct(5) {
			lines[i] += " " + atoms[len(atoms)-1]
		}
		if i > 0 && r.Pct(70) {
			lines[i] = strings.Repeat(" ", 1+r.Intn(4)) + lines[i]
		}
	}
	if r.Pct(6) && !avoids(avoid, "lead-blank") {
		lines[0] = " " + lines[0]
	}
	if r.Pct(6) && !avoids(avoid, "trail-blank") {
		lines[len(lines)-1] += " "
	}
	if nlines > 1 && r.Pct(6) && !avoids(avoid, "empty-line") {
		i := 1 + r.Intn(nlines-1)
		lines = append(lines[:i], append([]string{""}, lines[i:]...)...)
	}
	return lines
}

func (e *engine) Generate(seed uint64, idx int, tier string, avoid []harness.Finding) json.RawMessage {
	r := tape.NewRand(tape.Mix(seed, uint64(idx)))
	maxOps := 24
	if tier == "thorough" {
		maxOps = 60
	}
	n := 3 + r.Intn(maxOps-2)
	if r.Pct(30) {
		n = 2 + r.Intn(6) // many short sequences
	}
	var c Case
	fatForms = r.Pct(12)
	defer func() { fatForms = false }()
	if r.Pct(55) {
		c.LineBuf = []int{16, 17, 19, 24, 32, 33, 48, 64, 100, 128}[r.Intn(10)]
	}
	if r.Pct(15) {
		c.ShortRead = 1 + r.Intn(40)
	}
	limit := 3 + r.Intn(10)
	if r.Pct(20) {
		limit = 10 + r.Intn(30)
	}
	if r.Pct(8) {
		limit = r.Intn(3) // 0 (history off), 1, 2
	}
	if fatForms && limit < 12 {
		limit = 12 + r.Intn(20)
	}
	// rewrite-focused sessions (12 %): many ranged clears of a history that is
	// not compacted away, written through a small buffer - the rewrite of a
	// clear then takes several write steps whose boundaries fall inside forms
	// (seeded change C20-i2 was found once in 2000 ordinary sessions)
	focus := r.Pct(12)
	if focus {
		c.LineBuf = []int{16, 24, 33, 48, 64}[r.Intn(5)]
		limit = 12 + r.Intn(20)
	}
	c.Ops = append(c.Ops, Op{K: "limit", A: limit})
	// swarm: per-case operation mix
	wHist := 40 + r.Intn(50)
	wStash := r.Intn(25)
	wSet := r.Intn(25)
	wClear := r.Intn(12)
	wRestart := 3 + r.Intn(15)
	wLimit := r.Intn(6)
	rangedClear := r.Pct(40)
	if focus {
		wHist, wClear, rangedClear, wLimit, wSet = 90, 8+r.Intn(8), true, 0, r.Intn(5)
	}
	hn, sn := 0, 0 // rough sizes of the history and the stash, to aim ranged clears
	c.SafeRanged = avoids(avoid, "ranged-clear")
	total := wHist + wStash + wSet + wClear + wRestart + wLimit
	var pool [][]string
	for len(c.Ops) < n {
		x := r.Intn(total)
		switch {
		case x < wHist:
			var f []string
			if len(pool) > 0 && r.Pct(15) {
				f = pool[r.Intn(len(pool))] // repeated form (dedupe path)
			} else {
				f = genForm(r, avoid, false)
				pool = append(pool, f)
			}
			c.Ops = append(c.Ops, Op{K: "hadd", Form: f})
			if hn++; limit > 0 && hn > limit+limit/10 {
				hn = limit
			}
			if r.Pct(8) {
				c.Ops = append(c.Ops, Op{K: "hedit", A: r.Intn(4)})
			}
			if r.Pct(10) {
				c.Ops = append(c.Ops, Op{K: "hadd", Form: f}) // immediate duplicate
			}
		case x < wHist+wStash:
			if r.Pct(18) {
				// switch to another stash file (0 = the default one)
				c.Ops = append(c.Ops, Op{K: "use", A: r.Intn(3)})
				sn = 0
				break
			}
			c.Ops = append(c.Ops, Op{K: "sadd", Form: genForm(r, avoid, true)})
			sn++
		case x < wHist+wStash+wSet:
			v := watched[r.Intn(len(watched))]
			if v == "*repl-history-limit*" {
				c.Ops = append(c.Ops, Op{K: "limit", A: 3 + r.Intn(20)})
				break
			}
			vals := settingValues[v]
			c.Ops = append(c.Ops, Op{K: "set", Var: v, Val: vals[r.Intn(len(vals))]})
		case x < wHist+wStash+wSet+wClear:
			op := Op{K: "hclear", A: 0, B: -1}
			if r.Pct(50) && !(focus && r.Pct(50)) {
				op.K = "sclear"
			}
			if rangedClear && (focus || r.Pct(50)) {
				op.A = r.Intn(4)
				op.B = op.A + r.Intn(4)
				if c.SafeRanged {
					op.A = 0
					op.B = 1 + r.Intn(12)
					// aim at the range the unchanged tree handles: at least
					// the older half, and something is left to be rewritten
					if n := map[bool]int{true: sn, false: hn}[op.K == "sclear"]; n >= 3 && r.Pct(70) {
						op.B = n/2 + r.Intn(n-1-n/2)
					}
					op.Aim = focus
				}
			}
			if op.K == "sclear" {
				if sn -= op.B + 1; op.B < 0 || sn < 0 {
					sn = 0
				}
			} else if hn -= op.B + 1; op.B < 0 || hn < 0 {
				hn = 0
			}
			c.Ops = append(c.Ops, op)
		case x < wHist+wStash+wSet+wClear+wRestart:
			c.Ops = append(c.Ops, Op{K: "restart"})
		default:
			if r.Pct(10) {
				c.Ops = append(c.Ops, Op{K: "limit", A: r.Intn(3)})
			} else {
				c.Ops = append(c.Ops, Op{K: "limit", A: 3 + r.Intn(20)})
			}
		}
	}
	if r.Pct(12) {
		// (drawn last, so that every other case is what it was before)
		c.Blank = 1 + r.Intn(3)
	}
	c.Bg = r.Intn(3)
	b, _ := json.Marshal(c)
	return b
}

// ---- execution ----

type formList [][]string

func formsEqual(a, b []string) bool {
	if len(a) != len(b) {
		return false
	}
	for i := range a {
		if a[i] != b[i] {
			return false
		}
	}
	return true
}

func listsEqual(a, b formList) bool {
	if len(a) != len(b) {
		return false
	}
	for i := range a {
		if !formsEqual(a[i], b[i]) {
			return false
		}
	}
	return true
}

func isPrefix(p, whole formList) bool {
	return len(p) <= len(whole) && listsEqual(p, whole[:len(p)])
}

func isSuffix(sfx, whole formList) bool {
	return len(sfx) <= len(whole) && listsEqual(sfx, whole[len(whole)-len(sfx):])
}

func show(fl formList) string {
	var parts []string
	for _, f := range fl {
		parts = append(parts, fmt.Sprintf("%q", strings.Join(f, "⏎")))
	}
	if len(parts) > 12 {
		parts = append(append(parts[:5:5], fmt.Sprintf("…%d more…", len(parts)-10)), parts[len(parts)-5:]...)
	}
	return "[" + strings.Join(parts, " ") + "]"
}

func toForm(lines []string) repl.Form {
	f := make(repl.Form, len(lines))
	for i, l := range lines {
		f[i] = []rune(l)
	}
	return f
}

// edForm puts the lines into the world's reused editor buffers.
func (w *world) edForm(lines []string) repl.Form {
	for len(w.edBuf) < len(lines) {
		w.edBuf = append(w.edBuf, make([]rune, 0, 64))
	}
	f := make(repl.Form, len(lines))
	for i, l := range lines {
		w.edBuf[i] = append(w.edBuf[i][:0], []rune(l)...)
		f[i] = w.edBuf[i]
	}
	return f
}

func stashForms(s *repl.Stash) formList {
	n := s.Size()
	out := make(formList, 0, n)
	for i := n - 1; i >= 0; i-- { // Nth counts from the most recent
		f := s.Nth(i)
		lines := make([]string, len(f))
		for j, l := range f {
			lines[j] = string(l)
		}
		out = append(out, lines)
	}
	return out
}

type world struct {
	e    *engine
	home string
	dir  string
	sess *simos.Session
	// counters
	steps      int
	safeRanged bool
	// edBuf are the editor's line buffers: like the real editor the harness
	// reuses them for the next form after handing a form to Add, so an Add
	// that keeps references to the caller's runes is found out
	edBuf [][]rune
	// pending crash to arm in the next incarnation (death during start-up)
	armK     int
	armAfter bool
	// stashCur is the stash file in use (0 = the default one in the config
	// directory, 1.. = files selected with use-stash); stashLeft is what a
	// file held when the session last left it, as far as that is known
	stashCur  int
	stashLeft map[int]formList
}

func (e *engine) setup() {
	if e.base != "" {
		return
	}
	root := "/dev/shm"
	if fi, err := os.Stat(root); err != nil || !fi.IsDir() {
		root = os.TempDir()
	}
	base, err := os.MkdirTemp(root, "verif-c20-")
	if err != nil {
		panic(err)
	}
	e.base = base
	_ = os.Chdir(base)
	os.Unsetenv("XDG_CONFIG_HOME")
	slip.StandardOutput = &slip.OutputStream{Writer: io.Discard}
	slip.ErrorOutput = &slip.OutputStream{Writer: io.Discard}
	for _, a := range atoms {
		if strings.HasPrefix(a, ";") {
			continue
		}
		func() {
			defer func() {
				if r := recover(); r != nil {
					panic(fmt.Sprintf("c20: workload atom %q is not readable by slip: %v", a, r))
				}
			}()
			_ = slip.Read([]byte("("+a+")"), slip.NewScope())
		}()
	}
	e.defaults = map[string]slip.Object{}
	for _, v := range watched {
		e.defaults[v] = slip.UserPkg.JustGet(v)
	}
}

// Close removes the scratch directory.
func (e *engine) Close() {
	if e.base != "" {
		_ = os.RemoveAll(e.base)
	}
}

func (e *engine) newWorld() *world {
	e.n++
	home := filepath.Join(e.base, fmt.Sprintf("w%d", e.n))
	w := &world{e: e, home: home, dir: filepath.Join(home, ".config", "slip"), safeRanged: e.safeRanged}
	if err := os.MkdirAll(home, 0o755); err != nil {
		panic(err)
	}
	os.Setenv("HOME", home)
	if e.blank > 0 {
		if err := os.MkdirAll(w.dir, 0o755); err != nil {
			panic(err)
		}
		if err := os.WriteFile(filepath.Join(w.dir, "history"), []byte(strings.Repeat("\n", e.blank)), 0o644); err != nil {
			panic(err)
		}
	}
	return w
}

func (w *world) destroy() {
	if w.sess != nil {
		w.sess.End()
		w.sess = nil
	}
	_ = os.RemoveAll(w.home)
}

// boot is a process start: the previous incarnation's state is dropped and
// the real start-up path runs. It returns a non-empty string if start-up
// failed.
func (w *world) boot() (fail string) {
	if w.sess != nil {
		// a clean exit waits for the work it started in the background; a
		// dead process does not (End abandons what is pending)
		w.sess.Drain()
		w.steps += w.sess.Steps
		w.sess.End()
	}
	repl.VerifReset(func() {
		for _, v := range watched {
			func() {
				defer func() { _ = recover() }()
				slip.UserPkg.Set(v, w.e.defaults[v])
			}()
		}
	})
	repl.ZeroMods()
	w.stashCur = 0
	w.sess = simos.Begin(simos.Plan{})
	w.sess.KeepLog = false
	w.sess.SetBgMode(w.e.bg)
	if w.armK > 0 {
		w.sess.ArmCrash(w.armK, w.armAfter)
		w.armK = 0
	}
	slip.StandardInput = slip.NewInputStream(strings.NewReader(""))
	func() {
		defer func() {
			if r := recover(); r != nil {
				if _, isCrash := r.(simos.Crash); isCrash {
					return
				}
				fail = fmt.Sprintf("SetConfigDir: %v", r)
			}
		}()
		repl.SetConfigDir(w.dir)
	}()
	if fail != "" || w.sess.Dead() {
		return
	}
	func() {
		defer func() {
			if r := recover(); r != nil {
				if _, isCrash := r.(simos.Crash); isCrash {
					return
				}
				fail = fmt.Sprintf("Run: %v", r)
			}
		}()
		repl.Run()
	}()
	return
}

func evalLisp(src string) (result slip.Object, fail string) {
	defer func() {
		if r := recover(); r != nil {
			if c, isCrash := r.(simos.Crash); isCrash {
				panic(c)
			}
			fail = fmt.Sprint(r)
		}
	}()
	s := repl.Scope()
	code := slip.Read([]byte(src), s)
	for _, obj := range code {
		if obj != nil {
			result = obj.Eval(s, 0)
		}
	}
	return
}

// apply performs one operation in the current incarnation. crashed reports
// a simulated process death; fail an unexpected failure of the operation.
func (w *world) apply(op Op) (crashed bool, fail string) {
	defer func() {
		if r := recover(); r != nil {
			if _, isCrash := r.(simos.Crash); isCrash {
				crashed = true
				return
			}
			fail = fmt.Sprint(r)
		}
	}()
	switch op.K {
	case "hadd":
		repl.TheHistory.Add(w.edForm(op.Form))
	case "sadd":
		repl.TheStash.Add(w.edForm(op.Form))
	case "hedit":
		// recall the A-th most recent entry as the editor does (a private
		// copy), change it in place and enter it
		if f := repl.TheHistory.Nth(op.A); len(f) > 0 {
			d := f.Dup()
			for i := range d {
				for j := range d[i] {
					if d[i][j] == 'a' || d[i][j] == 'o' || d[i][j] == 'e' {
						d[i][j] = 'z'
					}
				}
			}
			d[len(d)-1] = append(d[len(d)-1], []rune(" ;edited")...)
			repl.TheHistory.Add(d)
		}
	case "hclear", "sclear":
		if w.safeRanged && (op.A != 0 || op.B != -1) {
			n := repl.TheHistory.Size()
			if op.K == "sclear" {
				n = repl.TheStash.Size()
			}
			if op.Aim && n >= 3 && op.B >= 0 {
				op.A, op.B = 0, n/2+op.B%(n-1-n/2)
			}
			end := op.B
			if end < 0 || n <= end {
				end = n - 1
			}
			if op.A > 0 || 2*end+2 < n || n == 0 {
				w.e.rangedSkipped++
				return false, "" // would hit the known finding: skipped
			}
			if end < n-1 {
				w.e.rangedPartial++ // something is left and rewritten
			}
		}
		name := "clear-history"
		if op.K == "sclear" {
			name = "clear-stash"
		}
		src := "(" + name + ")"
		if op.A != 0 || op.B != -1 {
			src = fmt.Sprintf("(%s :start %d :end %d)", name, op.A, op.B)
		}
		_, fail = evalLisp(src)
	case "use":
		_, fail = evalLisp(fmt.Sprintf("(use-stash %q)", w.stashPath(op.A)))
	case "limit":
		_, fail = evalLisp(fmt.Sprintf("(setq *repl-history-limit* %d)", op.A))
	case "set":
		val := op.Val
		if strings.HasPrefix(val, ":") || val == "t" || val == "nil" || strings.HasPrefix(val, `"`) ||
			strings.IndexAny(val[:1], "-0123456789") == 0 {
			_, fail = evalLisp(fmt.Sprintf("(setq %s %s)", op.Var, val))
		} else {
			_, fail = evalLisp(fmt.Sprintf("(setq %s '%s)", op.Var, val))
		}
	case "restart":
		fail = w.boot()
		if fail != "" {
			fail = "start-fails: " + fail
		}
	}
	if w.sess.Dead() {
		crashed = true
	}
	return
}

type snapshot struct {
	hist     formList
	stash    formList
	settings map[string]string
	limit    int
}

func (w *world) left(k int, fl formList) {
	if w.stashLeft == nil {
		w.stashLeft = map[int]formList{}
	}
	w.stashLeft[k] = fl
}

// fresh reports whether stash file k has never been selected in this world.
func (w *world) fresh(k int) bool {
	_, err := os.Stat(w.stashPath(k))
	return err != nil
}

func (w *world) stashPath(k int) string {
	if k == 0 {
		return filepath.Join(w.dir, "stash.lisp")
	}
	return filepath.Join(w.home, fmt.Sprintf("alt%d.lisp", k))
}

func (w *world) snap() snapshot {
	s := snapshot{hist: stashForms(&repl.TheHistory.Stash), stash: stashForms(&repl.TheStash), settings: map[string]string{}}
	for _, v := range watched {
		s.settings[v] = objRepr(slip.UserPkg.JustGet(v))
	}
	if n, ok := slip.UserPkg.JustGet("*repl-history-limit*").(slip.Fixnum); ok {
		s.limit = int(n)
	}
	return s
}

func objRepr(o slip.Object) string {
	if o == nil {
		return "nil"
	}
	switch t := o.(type) {
	case slip.String:
		return fmt.Sprintf("%q", string(t))
	case slip.Fixnum:
		return fmt.Sprintf("fixnum:%d", int64(t)) // independent of *print-base*
	}
	return fmt.Sprintf("%T:%s", o, o.String())
}

func viol(class, f string, a ...any) *harness.Violation {
	return &harness.Violation{Class: class, Detail: fmt.Sprintf(f, a...)}
}

type acc struct {
	run    uint64 // running fingerprint of the current simulated execution
	hashes []uint64
	evals  int
	faults map[string]int
	probes map[string]int
}

func hashOf(parts ...string) uint64 {
	h := fnv.New64a()
	for _, p := range parts {
		_, _ = h.Write([]byte(p))
		_, _ = h.Write([]byte{0})
	}
	return h.Sum64()
}

// model of the fault-free history (see DESIGN §4 C20).
type model struct {
	may     formList // everything entered since the last clear / adopted state
	must    formList // minimal legitimate retention
	limit   int
	lastAdd bool // the last history-changing operation was an Add
	ranged  bool // a ranged clear happened: only fidelity applies afterwards
}

func emptyForm(f []string) bool {
	for _, l := range f {
		if strings.Trim(l, " ") != "" {
			return false
		}
	}
	return true
}

func (m *model) add(f []string, mem formList) {
	if m.limit <= 0 || emptyForm(f) {
		return
	}
	if len(mem) > 0 && formsEqual(mem[len(mem)-1], f) {
		return
	}
	m.may = append(m.may, f)
	m.must = append(m.must, f)
	if len(m.must) > m.limit {
		m.must = m.must[len(m.must)-m.limit:]
	}
	m.lastAdd = true
}

func (m *model) adopt(mem formList) {
	m.may = append(formList{}, mem...)
	m.must = append(formList{}, mem...)
	if m.limit > 0 && len(m.must) > m.limit {
		m.must = m.must[len(m.must)-m.limit:]
	}
	m.lastAdd = false
}

func rangeRemoved(h formList, a, b int) formList {
	if len(h) == 0 || a >= len(h) {
		return h
	}
	if a < 0 {
		a = 0
	}
	if b < 0 || b >= len(h) {
		b = len(h) - 1
	}
	if a > b {
		return h
	}
	out := append(formList{}, h[:a]...)
	return append(out, h[b+1:]...)
}

// checkHist checks a history (in memory or loaded) against the model.
func (m *model) checkHist(h formList, what string) *harness.Violation {
	if m.ranged {
		return nil
	}
	if !isSuffix(h, m.may) {
		return viol("history-not-recent-suffix", "%s %s is not a suffix of the entered forms %s", what, show(h), show(m.may))
	}
	if len(h) < len(m.must) {
		return viol("history-lost-recent", "%s holds %d forms but the %d most recent (limit %d) must be kept: %s vs %s",
			what, len(h), len(m.must), m.limit, show(h), show(m.must))
	}
	// "none duplicated" is implied: the model drops an entered form that equals
	// the most recent one, so a duplicate the implementation keeps makes h
	// differ from every suffix of m.may. (A separate adjacent-equal check was
	// a false alarm: a ranged clear can legitimately make equal forms adjacent.)
	if m.lastAdd && m.limit > 0 && len(h) > m.limit+m.limit/10 {
		return viol("history-over-limit", "%s holds %d forms right after an add with limit %d", what, len(h), m.limit)
	}
	return nil
}

// runClean executes ops[from:] without faults in world w, checking fidelity
// at every restart. When m is non-nil the history model is checked as well.
// snaps, when non-nil, receives the snapshot before each op and a final one.
func (w *world) runClean(ops []Op, from int, m *model, snaps *[]snapshot, a *acc) *harness.Violation {
	for i := from; i < len(ops); i++ {
		op := ops[i]
		before := w.snap()
		if snaps != nil {
			*snaps = append(*snaps, before)
		}
		stepsBefore := w.sess.Steps
		curBefore := w.stashCur
		freshBefore := op.K == "use" && w.fresh(op.A)
		crashed, fail := w.apply(op)
		if crashed {
			return viol("harness", "unexpected crash in fault-free run")
		}
		if fail != "" {
			if strings.HasPrefix(fail, "start-fails") {
				return viol("start-fails", "op %d restart: %s", i, fail)
			}
			if (op.K == "set" || op.K == "limit") && w.sess.Steps == stepsBefore {
				// the value was rejected before anything was written: not a
				// persistence matter
				a.probes["setting_rejected"]++
				continue
			}
			return viol("op-failed", "op %d %s failed without any fault: %s", i, op.K, fail)
		}
		after := w.snap()
		switch op.K {
		case "restart":
			a.probes["clean_restarts"]++
			a.run = a.run*1099511628211 ^ hashOf("restart", show(after.hist), show(after.stash))
			if !listsEqual(before.hist, after.hist) {
				return viol("history-restart-mismatch", "op %d: session held %s but the restart loaded %s", i, show(before.hist), show(after.hist))
			}
			wantStash := before.stash
			if cur := curBefore; cur != 0 {
				// the session was using another stash file; a start loads the
				// default one, which must hold what it held when it was left
				w.left(cur, before.stash)
				wantStash = w.stashLeft[0]
			}
			if !listsEqual(wantStash, after.stash) {
				return viol("stash-restart-mismatch", "op %d: the default stash held %s but the restart loaded %s", i, show(wantStash), show(after.stash))
			}
			for _, v := range watched {
				if before.settings[v] != after.settings[v] {
					return viol("settings-restart-mismatch", "op %d: %s was %s before the restart and is %s after it", i, v, before.settings[v], after.settings[v])
				}
			}
			if m != nil {
				m.limit = after.limit
				if v := m.checkHist(after.hist, fmt.Sprintf("op %d: the restart", i)); v != nil {
					return v
				}
			}
		case "hadd":
			if w.sess.Steps-stepsBefore > 3 {
				a.probes["compactions"]++
			}
			if m != nil {
				m.add(op.Form, before.hist)
				if v := m.checkHist(after.hist, fmt.Sprintf("op %d: the session after add", i)); v != nil {
					return v
				}
			}
		case "hedit":
			if m != nil && op.A < len(before.hist) {
				orig := before.hist[len(before.hist)-1-op.A]
				ed := make([]string, len(orig))
				for k, l := range orig {
					ed[k] = strings.NewReplacer("a", "z", "o", "z", "e", "z").Replace(l)
				}
				ed[len(ed)-1] += " ;edited"
				m.add(ed, before.hist)
				if v := m.checkHist(after.hist, fmt.Sprintf("op %d: the session after editing a recalled entry", i)); v != nil {
					return v
				}
			}
		case "hclear":
			if m != nil {
				if op.A == 0 && op.B == -1 {
					m.may, m.must, m.lastAdd = nil, nil, false
					if len(after.hist) != 0 {
						return viol("history-clear", "op %d: history holds %s after a full clear", i, show(after.hist))
					}
				} else {
					// The index semantics of a ranged clear are not
					// documented (see known finding C20-ranged-clear), so
					// the model adopts what the session shows and only
					// restart fidelity is judged from here on.
					m.adopt(after.hist)
				}
			}
		case "use":
			w.left(curBefore, before.stash)
			if want, known := w.stashLeft[op.A]; known {
				if !listsEqual(after.stash, want) {
					return viol("stash-switch-mismatch", "op %d: stash file %d held %s when the session left it, use-stash loaded %s", i, op.A, show(want), show(after.stash))
				}
			} else if freshBefore && len(after.stash) != 0 {
				return viol("stash-switch-mismatch", "op %d: stash file %d was never used, use-stash loaded %s", i, op.A, show(after.stash))
			}
			w.stashCur = op.A
			w.left(op.A, after.stash)
		case "sadd":
			// the stash has no limit: it holds what it held plus the form,
			// unless the form repeats the most recent one
			want := append(append(formList{}, before.stash...), op.Form)
			if n := len(before.stash); n > 0 && formsEqual(before.stash[n-1], op.Form) {
				want = before.stash
			}
			if !listsEqual(after.stash, want) {
				return viol("stash-add", "op %d: the stash held %s, %s was stashed and now it holds %s", i, show(before.stash), show(formList{op.Form}), show(after.stash))
			}
		case "sclear":
			if m != nil && op.A == 0 && op.B == -1 && len(after.stash) != 0 {
				return viol("stash-clear", "op %d: stash holds %s after a full clear", i, show(after.stash))
			}
		case "limit":
			if m != nil {
				m.limit = after.limit
				if m.limit < 0 {
					m.limit = 0
				}
				if len(m.must) > m.limit {
					m.must = m.must[len(m.must)-m.limit:]
				}
				m.lastAdd = false
			}
		}
	}
	if snaps != nil {
		*snaps = append(*snaps, w.snap())
	}
	return nil
}

func (e *engine) Execute(raw json.RawMessage) (vd harness.Verdict) {
	e.setup()
	var c Case
	if err := json.Unmarshal(raw, &c); err != nil {
		panic(err)
	}
	a := &acc{faults: map[string]int{}, probes: map[string]int{}}
	e.safeRanged = c.SafeRanged
	e.blank = c.Blank
	e.bg = c.Bg
	simos.SetKnob("linereader", c.LineBuf)
	defer simos.SetKnob("linereader", 0)
	simos.SetKnob("bufio", c.LineBuf)
	defer simos.SetKnob("bufio", 0)
	simos.SetKnob("shortread", c.ShortRead)
	defer simos.SetKnob("shortread", 0)
	if c.LineBuf > 0 {
		a.probes["cases_with_small_line_buffer"]++
	}
	e.rangedSkipped, e.rangedPartial = 0, 0
	defer func() {
		a.probes["ranged_clear_skipped_known_finding"] += e.rangedSkipped
		a.probes["ranged_clear_partial_executed"] += e.rangedPartial
		vd.Hashes, vd.Evals, vd.Faults, vd.Probes = a.hashes, a.evals, a.faults, a.probes
	}()
	// Every case ends with a restart so that the last operations are checked.
	ops := append(append([]Op{}, c.Ops...), Op{K: "restart"})

	// Pass 1: fault-free, with the model, recording the step count of every
	// operation.
	var snaps []snapshot
	w := e.newWorld()
	a.evals++
	if fail := w.boot(); fail != "" {
		w.destroy()
		vd.V = viol("start-fails", "first start: %s", fail)
		return
	}
	stepsAt := make([]int, 0, len(ops)+1)
	var v *harness.Violation
	{
		m := &model{}
		for i := range ops {
			stepsAt = append(stepsAt, w.steps+w.sess.Steps)
			if v = w.runClean(ops[:i+1], i, m, &snaps, a); v != nil {
				break
			}
			snaps = snaps[:len(snaps)-1] // drop runClean's final snapshot
		}
		if v == nil {
			stepsAt = append(stepsAt, w.steps+w.sess.Steps)
			snaps = append(snaps, w.snap())
		}
	}
	w.destroy()
	a.hashes = append(a.hashes, a.run)
	if v != nil {
		pinned := c
		pinned.NoFaults = true
		pinned.Pin = nil
		vd.Pinned, _ = json.Marshal(pinned)
		vd.V = v
		return
	}
	if c.NoFaults {
		return
	}
	// Pass 2: a process death at every file-system step of every operation.
	for i := range ops {
		nsteps := stepsAt[i+1] - stepsAt[i]
		for k := 1; k <= nsteps; k++ {
			for _, after := range []bool{false, true} {
				if c.Pin != nil && (c.Pin.Err || c.Pin.Op != i || c.Pin.Step != k || c.Pin.After != after) {
					continue
				}
				if v := e.crashRun(ops, i, k, after, false, snaps, a); v != nil {
					pinned := c
					pinned.Pin = &Pin{Op: i, Step: k, After: after}
					vd.Pinned, _ = json.Marshal(pinned)
					vd.V = v
					return
				}
			}
			// second fault kind: the step fails with "no space left on device"
			if ops[i].K != "restart" {
				for _, short := range []bool{false, true} {
					if c.Pin != nil && !(c.Pin.Err && c.Pin.Op == i && c.Pin.Step == k && c.Pin.Short == short) {
						continue
					}
					if short && ops[i].K != "hadd" && ops[i].K != "sadd" {
						// A torn tail is only meaningful for the append-only
						// files. config.lisp is truncated and rewritten by one
						// write; a short write there is outside the death model
						// of the property (a completed write survives).
						continue
					}
					e.shortWrite = short
					v := e.crashRun(ops, i, k, false, true, snaps, a)
					e.shortWrite = false
					if v != nil {
						pinned := c
						pinned.Pin = &Pin{Op: i, Step: k, Err: true, Short: short}
						vd.Pinned, _ = json.Marshal(pinned)
						vd.V = v
						return
					}
				}
			}
		}
	}
	return
}

func (e *engine) crashRun(ops []Op, i, k int, after bool, ioErr bool, snaps []snapshot, a *acc) *harness.Violation {
	w := e.newWorld()
	defer w.destroy()
	a.evals++
	if fail := w.boot(); fail != "" {
		return viol("start-fails", "first start: %s", fail)
	}
	if v := w.runClean(ops[:i], 0, nil, nil, &acc{faults: map[string]int{}, probes: map[string]int{}}); v != nil {
		return viol("harness", "prefix of a crash run failed although the fault-free pass did not: %s", v.Detail)
	}
	pre := w.snap()
	if !listsEqual(pre.hist, snaps[i].hist) || !listsEqual(pre.stash, snaps[i].stash) {
		return viol("harness", "crash run diverged from the fault-free pass before op %d", i)
	}
	side := "before"
	if after {
		side = "after"
	}
	// which stash file the dying incarnation was using: the next start loads
	// the default one
	curAtDeath, defaultLeft := w.stashCur, w.stashLeft[0]
	if ioErr {
		// The step fails with ENOSPC; the operation may fail (the user sees
		// an error) and the session is then restarted: what is on disk must
		// be as consistent as after a death.
		w.sess.ArmError(k, syscall.ENOSPC)
		w.sess.SetShortWrite(e.shortWrite)
		crashed, _ := w.apply(ops[i])
		if crashed {
			return viol("harness", "unexpected crash in an I/O error run")
		}
		if w.sess.ErrFired == 0 {
			return viol("harness", "I/O error at op %d step %d did not fire", i, k)
		}
		a.faults["io_error"]++
		side = "ENOSPC at"
	} else {
		if ops[i].K == "restart" {
			w.armK, w.armAfter = k, after
		} else {
			w.sess.ArmCrash(k, after)
		}
		crashed, fail := w.apply(ops[i])
		if !crashed {
			if fail != "" {
				return viol("harness", "op %d failed instead of crashing: %s", i, fail)
			}
			return viol("harness", "crash at op %d step %d did not fire", i, k)
		}
		a.faults["process_death"]++
	}
	if _, err := os.Stat(filepath.Join(w.dir, "history.tmp")); err == nil {
		a.probes["death_left_history_tmp"]++
	}
	// Next start.
	if fail := w.boot(); fail != "" {
		return viol("start-fails", "start after a death %s step %d of op %d (%s): %s", side, k, i, ops[i].K, fail)
	}
	got := w.snap()
	// Starting once more, with nothing entered in between, loads the same:
	// what a start makes of the files a death left behind is stable (seeded
	// change C20-n1: a start that "repairs" a torn tail and cuts into the
	// entries before it, a little more at every start).
	if fail := w.boot(); fail != "" {
		return viol("start-fails", "second start after a death %s step %d of op %d (%s): %s", side, k, i, ops[i].K, fail)
	}
	if again := w.snap(); !listsEqual(again.hist, got.hist) || !listsEqual(again.stash, got.stash) {
		return viol("restart-not-stable", "death %s step %d of op %d (%s): the next start loads history %s and stash %s, the start after it (nothing entered in between) history %s and stash %s",
			side, k, i, ops[i].K, show(got.hist), show(got.stash), show(again.hist), show(again.stash))
	}
	A, B := snaps[i], snaps[i+1]
	a.run = hashOf("crash", ops[i].K, fmt.Sprint(k, after, ioErr), show(got.hist), show(got.stash))
	defer func() { a.hashes = append(a.hashes, a.run) }()
	// An add is made durable by an append or by tmp+rename: old or new state,
	// never less. Only a clear (truncate and rewrite) may be caught half way,
	// which leaves a prefix of its result.
	// A suffix of the old state is what a start makes of a file that holds
	// more than the limit - but then it keeps at least the limit's worth of
	// the most recent forms (an empty history is a suffix of everything:
	// seeded change C20-j1, a window without any history file).
	keep := len(A.hist)
	for _, l := range []int{A.limit, B.limit, got.limit} {
		if l < keep {
			keep = l
		}
	}
	okHist := listsEqual(got.hist, A.hist) || listsEqual(got.hist, B.hist) || (isSuffix(got.hist, A.hist) && len(got.hist) >= keep) ||
		(ops[i].K == "hclear" && isPrefix(got.hist, B.hist))
	if !okHist {
		return viol("crash-history-inconsistent",
			"death %s step %d of op %d (%s): next start loaded %s; before the op the session held %s, after it %s",
			side, k, i, ops[i].K, show(got.hist), show(A.hist), show(B.hist))
	}
	// the stash has no limit: old state, new state, or - for a clear, which
	// truncates and rewrites - a prefix of the new state
	okStash := listsEqual(got.stash, A.stash) || listsEqual(got.stash, B.stash) ||
		(ops[i].K == "sclear" && isPrefix(got.stash, B.stash))
	{
		switch {
		case curAtDeath != 0:
			// the operation worked on another stash file (what that file
			// holds now is learnt when it is selected again); the default
			// file was not touched
			okStash = listsEqual(got.stash, defaultLeft)
			A.stash, B.stash = defaultLeft, defaultLeft
			delete(w.stashLeft, curAtDeath)
		case ops[i].K == "use":
			okStash = listsEqual(got.stash, A.stash)
			delete(w.stashLeft, ops[i].A)
		}
	}
	if !okStash {
		return viol("crash-stash-inconsistent",
			"death %s step %d of op %d (%s): next start loaded stash %s; before the op %s, after it %s",
			side, k, i, ops[i].K, show(got.stash), show(A.stash), show(B.stash))
	}
	if kind := ops[i].K; kind != "set" && kind != "limit" {
		// The dying process was not changing a setting: the next start loads
		// the settings the session had (seeded change C20-l1: the start-up
		// itself rewrites config.lisp setting by setting).
		for _, v := range watched {
			if got.settings[v] != A.settings[v] {
				return viol("crash-settings-lost", "death %s step %d of op %d (%s), which changes no setting: %s was %s and is %s at the next start",
					side, k, i, ops[i].K, v, A.settings[v], got.settings[v])
			}
		}
	}
	if ioErr && e.shortWrite {
		// A fragment without a newline is left at the end of the file. It must
		// not be loaded (checked above); what later appends make of it is
		// outside the death model of the property and is not judged.
		return nil
	}
	// The user carries on from what was loaded; every later clean restart
	// must still be faithful (this is how a stale temporary file shows).
	rest := ops[i+1:]
	if ops[i].K == "restart" && len(rest) == 0 {
		rest = []Op{{K: "restart"}}
	}
	if v := w.runClean(rest, 0, nil, nil, a); v != nil {
		v.Detail = fmt.Sprintf("after a death %s step %d of op %d (%s) and a restart, continuing the session: %s", side, k, i, ops[i].K, v.Detail)
		v.Class = "after-crash-" + v.Class
		return v
	}
	return nil
}

// ---- shrinking ----

// readable reports whether the lines are in the input domain: exactly one
// complete Lisp form whose first and last line are not blank.
func readable(lines []string) (ok bool) {
	for len(lines) > 1 && lines[len(lines)-1] == "" {
		lines = lines[:len(lines)-1] // empty lines after the form
	}
	if len(lines) == 0 || strings.TrimSpace(lines[0]) == "" || strings.TrimSpace(lines[len(lines)-1]) == "" {
		return false
	}
	defer func() {
		if recover() != nil {
			ok = false
		}
	}()
	code := slip.Read([]byte(strings.Join(lines, "\n")), slip.NewScope())
	return len(code) == 1
}

func (e *engine) Shrink(raw json.RawMessage) (out []json.RawMessage) {
	var c Case
	_ = json.Unmarshal(raw, &c)
	emit := func(n Case) {
		// stay inside the input domain: every form is readable Lisp
		for _, op := range n.Ops {
			if len(op.Form) > 0 && !readable(op.Form) {
				return
			}
		}
		b, _ := json.Marshal(n)
		out = append(out, b)
	}
	clone := func() Case {
		// (SafeRanged is kept: without it a ranged clear of the shrunk case
		// would be executed in the range the known finding covers and the
		// violation would be taken for that finding)
		n := Case{NoFaults: c.NoFaults, SafeRanged: c.SafeRanged, LineBuf: c.LineBuf, ShortRead: c.ShortRead, Blank: c.Blank, Bg: c.Bg}
		n.Ops = make([]Op, len(c.Ops))
		copy(n.Ops, c.Ops)
		if c.Pin != nil {
			p := *c.Pin
			n.Pin = &p
		}
		return n
	}
	dropRange := func(lo, hi int) {
		if c.Pin != nil && c.Pin.Op >= lo && c.Pin.Op < hi {
			return
		}
		n := clone()
		n.Ops = append(n.Ops[:lo:lo], c.Ops[hi:]...)
		if n.Pin != nil && n.Pin.Op >= hi {
			n.Pin.Op -= hi - lo
		}
		emit(n)
	}
	if c.LineBuf > 0 {
		n := clone()
		n.LineBuf = 0
		emit(n)
	}
	if c.Blank > 0 {
		n := clone()
		n.Blank = 0
		emit(n)
	}
	if c.ShortRead > 0 {
		n := clone()
		n.ShortRead = 0
		emit(n)
	}
	// drop halves, quarters, single ops
	for size := len(c.Ops) / 2; size >= 1; size /= 2 {
		for lo := 0; lo+size <= len(c.Ops); lo += size {
			dropRange(lo, lo+size)
		}
	}
	// simplify forms and values
	for i, op := range c.Ops {
		if len(op.Form) > 0 {
			if len(op.Form) > 1 {
				n := clone()
				n.Ops[i].Form = op.Form[:1]
				emit(n)
				n = clone()
				n.Ops[i].Form = op.Form[len(op.Form)-1:]
				emit(n)
			}
			simple := make([]string, len(op.Form))
			changed := false
			for j, l := range op.Form {
				s := strings.ReplaceAll(l, "\t", " ")
				s = strings.TrimSpace(s)
				simple[j] = s
				if s != l {
					changed = true
				}
			}
			var nonEmpty []string
			for _, l := range simple {
				if l != "" {
					nonEmpty = append(nonEmpty, l)
				}
			}
			if len(nonEmpty) != len(simple) && len(nonEmpty) > 0 {
				n := clone()
				n.Ops[i].Form = nonEmpty
				emit(n)
			}
			if changed {
				n := clone()
				n.Ops[i].Form = simple
				emit(n)
			}
			short := fmt.Sprintf("(f%d)", i)
			if len(op.Form) != 1 || op.Form[0] != short {
				n := clone()
				n.Ops[i].Form = []string{short}
				emit(n)
			}
		}
		if op.K == "limit" && op.A > 3 {
			n := clone()
			n.Ops[i].A = 3
			emit(n)
		}
	}
	return
}

func caseHas(c Case, trig string) bool {
	for _, op := range c.Ops {
		switch trig {
		case "ranged-clear":
			if (op.K == "hclear" || op.K == "sclear") && (op.A != 0 || op.B != -1) && !c.SafeRanged {
				return true
			}
		case "set:" + op.Var:
			if op.K == "set" {
				return true
			}
		case "limit":
			if op.K == "limit" {
				return true
			}
		}
		for i, l := range op.Form {
			switch trig {
			case "tab":
				if strings.Contains(l, "\t") {
					return true
				}
			case "lead-blank":
				if i == 0 && strings.HasPrefix(l, " ") {
					return true
				}
			case "trail-blank":
				if i == len(op.Form)-1 && strings.HasSuffix(l, " ") {
					return true
				}
			case "empty-line":
				if l == "" {
					return true
				}
			}
		}
	}
	return false
}

func (e *engine) Matches(raw json.RawMessage, v *harness.Violation, f harness.Finding) bool {
	var c Case
	_ = json.Unmarshal(raw, &c)
	classOK := false
	for _, cl := range strings.Split(f.Class, "|") {
		if cl == v.Class {
			classOK = true
		}
	}
	return classOK && (f.Trigger == "" || caseHas(c, f.Trigger))
}
