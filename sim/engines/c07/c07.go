// Package c07 decides the resource-release clause of property C07: whenever
// control leaves an unwind-protect its cleanup runs exactly once, innermost
// first; a mutex taken by with-mutex-lock and a stream opened by
// with-open-file are released on every path; unhandled errors keep their
// condition class - under normal exits, non-local exits, errors, errors in
// cleanups, injected I/O failures and an asynchronous interrupt delivered at
// every evaluation step.
//
// Real code: unwind-protect, block/return-from, tagbody/go, ignore-errors,
// with-mutex-lock, with-open-file/open/close on a real file, the evaluator,
// gi:run for the observer routines. Simulated: the scheduler (observers
// contend for the mutexes at seeded moments), the interrupt (through
// Scope.InterruptCheck, the production seam) and the file system faults
// (simos).
package c07

import (
	"encoding/json"
	"fmt"
	"os"
	"path/filepath"
	"strings"
	"sync"
	"syscall"

	"github.com/ohler55/slip"
	"github.com/ohler55/slip/simrt/simos"
	"verif/sim/harness"
	"verif/sim/simkit/lispsim"
	"verif/sim/simkit/sched"
	"verif/sim/simkit/tape"
)

// Node is a node of the generated program.
type Node struct {
	K    string `json:"k"`
	ID   int    `json:"id,omitempty"`
	Mx   int    `json:"mx,omitempty"`
	Name string `json:"name,omitempty"`
	Kids []Node `json:"kids,omitempty"`
	// Tags: the body of a dolist/dotimes has integer tags between its forms
	Tags bool `json:"tags,omitempty"`
	// Close: a with-open-file body closes its stream itself at the end
	Close bool `json:"close,omitempty"`
	// CErr: the cleanup of an unwind-protect signals an error after its marker
	CErr bool `json:"cerr,omitempty"`
	// ConstVar: the stream variable of a with-open-file names a constant: the
	// form fails when it binds the variable, after the file has been opened
	// (seeded change C07-o1: the close registered only after the binding)
	ConstVar bool `json:"const_var,omitempty"`
	// HErr: the on-recover form of a recover signals an error of this kind
	// itself (seeded change C07-n2: a second failure that loses its class)
	HErr string `json:"herr,omitempty"`
	// NilVal: a ret leaf returns nil instead of 7 ((return) / (return-from b nil))
	NilVal bool `json:"nil_val,omitempty"`
	// Sym: the tags of this tagbody / loop body are symbols, not integers
	Sym bool `json:"sym,omitempty"`
	// Direct: the kids of a lock are the body forms of with-mutex-lock itself
	// (no unwind-protect/progn between the form and an exit that leaves it)
	Direct bool `json:"direct,omitempty"`
	// ResKid: the last kid of a dolist/dotimes/do is the loop's result form
	ResKid bool `json:"res_kid,omitempty"`
	// Tag0: a tagged body also has a tag in front of its first form (the
	// "do this again" idiom; seeded change C07-k2)
	Tag0 bool `json:"tag0,omitempty"`
	// Zero: the loop does not iterate (empty list / vector, a count of zero
	// or less, an end test that holds at once); only its result form runs
	Zero bool `json:"zero,omitempty"`
	// CKid: the last kid of an unwind-protect is one of its cleanup forms
	CKid bool `json:"c_kid,omitempty"`
}

// tag is the name of the tag in front of kid j (j >= 1) of a tagbody or of a
// tagged loop body.
func (n *Node) tag(j int) string {
	if n.Sym {
		return fmt.Sprintf("tg%d", n.ID*10+j)
	}
	return fmt.Sprint(n.ID*10 + j)
}

// tagged reports whether the kids of n are separated by tags.
func (n *Node) tagged() bool { return n.K == "tagbody" || n.K == "prog" || n.K == "progstar" || n.Tags }

// firstTag is the index of the first kid that has a tag in front of it.
func (n *Node) firstTag() int {
	if n.Tag0 {
		return 0
	}
	return 1
}

// loopKind reports whether n establishes a nil block (and an implicit tagbody).
func loopKind(k string) bool {
	switch k {
	case "dolist", "dotimes", "do", "prog", "dostar", "progstar", "dovector", "loop", "dosym", "doext", "doall":
		return true
	}
	return false
}

// plainKinds are forms that evaluate their kids in order as body forms and
// are otherwise transparent to an exit (added in the last session: the
// property speaks of "nested binding, conditional and iteration forms", not
// only of the ones its quantifier lists).
var plainKinds = []string{"seq", "let", "when", "unless", "cond", "lambda", "send",
	"case", "ecase", "casedef", "typecase", "etypecase", "progv", "wots", "wifs", "wos", "letstar", "mvb", "or", "and",
	"prog1", "prog2", "mvp1", "wslots", "wifo", "wsio", "select", "wzw", "mapc"}

var loopKinds = []string{"dolist", "dotimes", "do", "prog", "dostar", "progstar", "dovector", "loop", "dosym", "doext", "doall"}


// Fault is the injected fault of a run.
type Fault struct {
	Kind string `json:"kind"` // interrupt | io-write | io-close | io-open
	At   int    `json:"at"`
}

// Case is a program plus schedule and (optionally pinned) fault.
type Case struct {
	Prog    Node   `json:"prog"`
	Mutexes int    `json:"mutexes"`
	Fault   *Fault `json:"fault,omitempty"`
	// Twin: the program is the body of one function that two routines call at
	// the same time - one compiled code object evaluated by both; each
	// routine's trace must be the one the reference evaluator predicts
	// (seeded change C07-m2: state collected lazily on the form object)
	Twin bool `json:"twin,omitempty"`
	// NoFaults restricts to the fault-free run.
	NoFaults  bool     `json:"no_faults,omitempty"`
	Policy    string   `json:"policy"`
	SwitchPct int      `json:"switch_pct"`
	YieldPct  int      `json:"yield_pct"`
	Salt      uint64   `json:"salt"`
	TapeSeed  uint64   `json:"tape_seed"`
	Tape      []uint32 `json:"tape,omitempty"`
	Replay    bool     `json:"replay,omitempty"`
}

type engine struct {
	dir string
	n   int
}

func init() { harness.Register(&engine{}) }

func (e *engine) ID() string { return "C07" }

func (e *engine) Meta() harness.Meta {
	return harness.Meta{
		Level: "exploration",
		Rule: "a case is a seeded program nesting (depth <= 5) block / tagbody / unwind-protect / with-mutex-lock / with-open-file / ignore-errors / recover " +
			"around let, progn, when, unless, cond, dolist, dotimes, do, prog, lambda calls and closures called by a method, with exit leaves of every kind " +
			"at every body position (fall through, return-from an enclosing block, go to a later or - once - an earlier tag, errors of several classes, " +
			"an error inside a cleanup); it runs once fault-free and then once per " +
			"evaluation step k with an interrupt delivered at step k through Scope.InterruptCheck, and once per I/O plan (ENOSPC on the n-th write, " +
			"on close, on open); one observer routine per mutex contends for it under a seeded schedule. evaluations = simulated runs; " +
			"distinct_nontrivial = distinct event-log fingerprints among runs in which a fault fired or a context switch happened",
		Real: []string{"cl:unwind-protect/block/return-from/return/tagbody/go/ignore-errors/let/progn/when/unless/cond/dolist/dotimes/do/prog/lambda, flavors send", "gi:with-mutex-lock, gi:recover, gi:run",
			"cl:with-open-file/open/close + slip.FileStream on a real file", "slip evaluator (Function.Eval, normalAfter)"},
		Stub: []string{"Go scheduler", "sync.Mutex blocking", "the interrupt source (delivered through the production seam Scope.InterruptCheck)", "file-system failures (simos error plans)"},
		Assumptions: []string{
			"exit transfer is judged structurally (only cleanups between an exit leaf and its target; the block yields the leaf's value); the value of return-from in general is not judged",
			"interrupts are not delivered on the evaluation step of a marker itself, so markers are exact",
		},
		FaultKinds:    []string{"interrupt", "io_error", "cleanup_error", "schedule_perturbation"},
		QuickCases:    2400,
		ThoroughCases: 60000,
	}
}

// ---- generation ----

type genCtx struct {
	r       *tape.Rand
	nextID  int
	blocks  []string
	tags    []string // tags that may be jumped to from here (later tags of enclosing tagbodies)
	btags   []string // earlier tags of enclosing tagbodies (a go to one of them repeats a part of the program)
	mutexes int
	held    map[int]bool
	files   int
	inSend  int
	backs   int
}

var errLeaves = []string{"simple", "div0", "type", "unbound", "undef"}

func (g *genCtx) leaf() Node {
	x := g.r.Intn(100)
	switch {
	case x < 45:
		return Node{K: "val"}
	case x < 62 && len(g.blocks) > 0:
		g.nextID++
		return Node{K: "ret", ID: g.nextID, Name: g.blocks[g.r.Intn(len(g.blocks))], NilVal: g.r.Pct(25)}
	case x < 70 && len(g.tags) > 0:
		return Node{K: "go", Name: g.tags[g.r.Intn(len(g.tags))]}
	case x < 74 && len(g.btags) > 0 && g.backs < 2:
		// a backward go, taken once (sim-once): the part of the program between
		// the tag and the leaf runs a second time
		g.backs++
		g.nextID++
		return Node{K: "goback", ID: g.nextID, Name: g.btags[g.r.Intn(len(g.btags))]}
	case x < 88:
		return Node{K: "err", Name: errLeaves[g.r.Intn(len(errLeaves))]}
	case x < 91 && g.inSend == 0:
		// a function called through a call site that was compiled before the
		// function was defined
		g.nextID++
		return Node{K: "fwd", ID: g.nextID}
	case x < 95 && g.inSend == 0:
		// (not inside a lambda body: a defun evaluated inside a function body
		// loses its parameters on the unchanged tree - not a C07 matter)
		g.nextID++
		return Node{K: "recur", ID: g.nextID}
	case x < 98 && g.inSend == 0:
		// one unwind-protect site entered again while an outer activation is
		// still inside its protected form (seeded change C07-k1: state kept
		// on the form object instead of per activation)
		g.nextID++
		return Node{K: "reuwp", ID: g.nextID}
	}
	return Node{K: "val"}
}

// exitChain builds a block (or a tagbody) whose last form is a chain of 1-4
// nested forms, each holding the next one as its LAST form, with a
// return-from (go) to the outermost at the bottom: an exit that leaves through
// every form of the chain from tail position - the shape a random tree rarely
// produces, and the only one in which forms that do not forward non-final
// exits (known findings) can be exercised.
func (g *genCtx) exitChain() Node {
	g.nextID++
	top := g.nextID
	useGo := g.r.Pct(30)
	var bottom Node
	var name string
	if useGo {
		bottom = Node{K: "go", Name: fmt.Sprint(top*10 + 1)}
	} else {
		name = fmt.Sprintf("c%d", top)
		if g.r.Pct(30) {
			name = fmt.Sprintf("Chn%dX", top)
		}
		g.nextID++
		bottom = Node{K: "ret", ID: g.nextID, Name: name}
	}
	kinds := append(append([]string{"uwp", "lock", "file", "ignore", "recover", "block", "tagbody", "uwp", "lock", "file", "ignore", "recover", "block", "tagbody"}, plainKinds...), loopKinds...)
	cur := bottom
	for d, n := 0, 1+g.r.Intn(4); d < n; d++ {
		g.nextID++
		w := Node{K: kinds[g.r.Intn(len(kinds))], ID: g.nextID}
		switch w.K {
		case "lock":
			w.Mx = g.r.Intn(g.mutexes)
			if g.held[w.Mx] {
				w.K = "seq"
			} else {
				g.held[w.Mx] = true
				w.Direct = g.r.Pct(50)
				defer func(mx int) { g.held[mx] = false }(w.Mx)
			}
		case "prog", "progstar", "tagbody":
			w.Tags = w.K != "tagbody"
			w.Sym = g.r.Pct(40)
		case "file":
			g.files++
		case "block":
			w.Name = fmt.Sprintf("i%d", w.ID)
		}
		if g.r.Pct(40) {
			w.Kids = append(w.Kids, Node{K: "val"})
		}
		w.Kids = append(w.Kids, cur)
		if g.r.Pct(50) {
			// the exit is not the last form: the forms after it must not run
			w.Kids = append(w.Kids, Node{K: "val"})
		}
		cur = w
	}
	if useGo {
		return Node{K: "tagbody", ID: top, Kids: []Node{cur, {K: "val"}, {K: "val"}}}
	}
	return Node{K: "block", ID: top, Name: name, Kids: []Node{cur}}
}

func (g *genCtx) kids(depth, max int) []Node {
	n := 1 + g.r.Intn(max)
	out := make([]Node, 0, n)
	for i := 0; i < n; i++ {
		out = append(out, g.node(depth))
	}
	return out
}

func (g *genCtx) node(depth int) Node {
	if depth <= 0 || g.r.Pct(22) {
		return g.leaf()
	}
	g.nextID++
	id := g.nextID
	switch x := g.r.Intn(100); {
	case x < 22:
		n := Node{K: "uwp", ID: id, CErr: g.r.Pct(8)}
		if g.r.Pct(25) {
			// the protected form is the kid itself, not a progn around it
			n.Direct = true
			n.Kids = g.kids(depth-1, 1)
		} else {
			n.Kids = g.kids(depth-1, 2)
			if g.r.Pct(20) {
				// one more kid among the cleanup forms: an exit taken there
				// replaces the one in progress and skips the later cleanup forms
				n.CKid = true
				n.Kids = append(n.Kids, g.node(depth-1))
			}
		}
		return n
	case x < 34:
		name := fmt.Sprintf("b%d", id)
		if g.r.Pct(30) {
			name = fmt.Sprintf("Blk%dX", id) // block names keep their case
		}
		if len(g.blocks) > 0 && g.r.Pct(15) {
			if prev := g.blocks[len(g.blocks)-1]; prev != "nil" {
				name = prev // an inner block with the same name shadows the outer one
			}
		}
		g.blocks = append(g.blocks, name)
		n := Node{K: "block", ID: id, Name: name, Kids: g.kids(depth-1, 2)}
		g.blocks = g.blocks[:len(g.blocks)-1]
		return n
	case x < 42:
		// (tagbody k0 tA k1 tB k2): kid i may go to the tags after it, and -
		// once - back to the tags before it
		n := Node{K: "tagbody", ID: id, Sym: g.r.Pct(40)}
		g.taggedKids(&n, depth, 2+g.r.Intn(2))
		return n
	case x < 54:
		mx := g.r.Intn(g.mutexes)
		if g.held[mx] { // a Go mutex is not reentrant: nesting the same one would self-deadlock
			return Node{K: "seq", ID: id, Kids: g.kids(depth-1, 2)}
		}
		g.held[mx] = true
		n := Node{K: "lock", ID: id, Mx: mx, Direct: g.r.Pct(40), Kids: g.kids(depth-1, 2)}
		g.held[mx] = false
		return n
	case x < 62:
		g.files++
		n := Node{K: "file", ID: id, Kids: g.kids(depth-1, 2), Close: g.r.Pct(25)}
		n.ConstVar = g.r.Pct(10)
		return n
	case x < 67:
		return Node{K: "ignore", ID: id, Kids: g.kids(depth-1, 2)}
	case x < 71:
		n := Node{K: "recover", ID: id, Kids: g.kids(depth-1, 2)}
		if g.r.Pct(20) {
			n.HErr = errLeaves[g.r.Intn(len(errLeaves))]
		}
		return n
	default:
		if g.inSend == 0 && g.r.Pct(8) {
			// a function body: nothing outside of it is a target
			name := fmt.Sprintf("fn%d", id)
			sb, st, sbt := g.blocks, g.tags, g.btags
			g.blocks, g.tags, g.btags = []string{name}, nil, nil
			n := Node{K: "fn", ID: id, Name: name, Kids: g.kids(depth-1, 3)}
			g.blocks, g.tags, g.btags = sb, st, sbt
			return n
		}
		var k string
		if g.r.Pct(36) {
			k = loopKinds[g.r.Intn(len(loopKinds))]
		} else {
			k = plainKinds[g.r.Intn(len(plainKinds))]
		}
		if loopKind(k) {
			// the loop establishes a nil block: (return v) leaves it; its
			// body is an implicit tagbody
			g.blocks = append(g.blocks, "nil")
			n := Node{K: k, ID: id}
			if k != "loop" && k != "doall" && (k == "prog" || k == "progstar" || g.r.Pct(35)) {
				n.Tags = true
				n.Sym = g.r.Pct(40)
				g.taggedKids(&n, depth, 2+g.r.Intn(2))
			} else {
				n.Kids = g.kids(depth-1, 2)
				if (k == "dolist" || k == "dotimes" || k == "do" || k == "dostar" || k == "dovector" || k == "dosym" || k == "doext") && g.r.Pct(30) {
					// one more kid as the result form of the loop (inside the
					// nil block, outside the body)
					n.ResKid = true
					n.Zero = g.r.Pct(35) // seeded change C07-l2: a shortcut for loops that do not iterate
					if n.Zero && g.r.Pct(50) {
						// the result form of a loop that does not iterate leaves
						// the nil block itself (kept frequent: eleven loop kinds
						// share the cases)
						g.nextID++
						n.Kids = append(n.Kids, Node{K: "ret", ID: g.nextID, Name: "nil", NilVal: g.r.Pct(25)})
					} else {
						n.Kids = append(n.Kids, g.node(depth-1))
					}
				}
			}
			g.blocks = g.blocks[:len(g.blocks)-1]
			return n
		}
		if k == "send" || k == "lambda" || k == "mapc" {
			g.inSend++
			n := Node{K: k, ID: id, Kids: g.kids(depth-1, 2)}
			g.inSend--
			return n
		}
		return Node{K: k, ID: id, Kids: g.kids(depth-1, 2)}
	}
}

// taggedKids generates nk kids separated by tags: kid i sees the tags after
// it as forward targets and the tags up to it as backward targets.
func (g *genCtx) taggedKids(n *Node, depth, nk int) {
	saved, bsaved := g.tags, g.btags
	n.Tag0 = g.r.Pct(30)
	for i := 0; i < nk; i++ {
		var later, earlier []string
		for j := i + 1; j < nk; j++ {
			later = append(later, n.tag(j))
		}
		for j := n.firstTag(); j <= i; j++ {
			earlier = append(earlier, n.tag(j))
		}
		g.tags = append(append([]string{}, saved...), later...)
		g.btags = append(append([]string{}, bsaved...), earlier...)
		n.Kids = append(n.Kids, g.node(depth-1))
	}
	g.tags, g.btags = saved, bsaved
}

func (e *engine) Generate(seed uint64, idx int, tier string, avoid []harness.Finding) json.RawMessage {
	r := tape.NewRand(tape.Mix(seed, uint64(idx)))
	c := Case{Salt: r.Uint64(), TapeSeed: r.Uint64(), Mutexes: 1 + r.Intn(3)}
	g := &genCtx{r: r, mutexes: c.Mutexes, held: map[int]bool{}}
	depth := 2 + r.Intn(4)
	c.Prog = Node{K: "seq", Kids: g.kids(depth, 3)}
	if r.Pct(20) {
		c.Prog.Kids[r.Intn(len(c.Prog.Kids))] = g.exitChain()
	}
	for i := range c.Prog.Kids {
		// keep the program going after an error in one top-level part
		if r.Pct(60) {
			g.nextID++
			c.Prog.Kids[i] = Node{K: "ignore", ID: g.nextID, Kids: []Node{c.Prog.Kids[i]}}
		}
	}
	avoidKinds, avoidGo := map[string]bool{}, map[string]bool{}
	for _, f := range avoid {
		if strings.HasPrefix(f.Trigger, "nontail:go:") {
			avoidGo[strings.TrimPrefix(f.Trigger, "nontail:go:")] = true
		} else if strings.HasPrefix(f.Trigger, "nontail:") {
			avoidKinds[strings.TrimPrefix(f.Trigger, "nontail:")] = true
		}
	}
	// do-all-symbols walks every package of the process: the number of
	// probe events of such a case depends on what earlier cases of the same
	// process defined (determinism self-test, case 34 of seed 7). The form
	// shares its loop with do-symbols (one helper, fix 1655ba1); the generator
	// keeps to the two packages of fixed size.
	renameKind(&c.Prog, "doall", "dosym")
	for _, f := range avoid {
		if k, ok := strings.CutPrefix(f.Trigger, "node:"); ok {
			// a node kind masked by an active finding is rendered as the plain
			// lambda call it generalises
			renameKind(&c.Prog, k, "lambda")
		}
	}
	if len(avoidKinds) > 0 {
		goMode = false
		sanitize(&c.Prog, nil, map[string]bool{}, avoidKinds)
	}
	if len(avoidGo) > 0 {
		goMode = true
		sanitize(&c.Prog, nil, map[string]bool{}, avoidGo)
		goMode = false
	}
	c.Policy = []string{sched.PolicyRandom, sched.PolicyRandom, sched.PolicyPCT, sched.PolicyRTB, sched.PolicyRR}[r.Intn(5)]
	c.SwitchPct = []int{5, 20, 50, 90}[r.Intn(4)]
	c.YieldPct = []int{0, 5, 25}[r.Intn(3)]
	if r.Pct(22) && twinnable(&c.Prog) {
		c.Twin = true
		c.SwitchPct = []int{50, 90}[r.Intn(2)]
		c.YieldPct = []int{25, 100}[r.Intn(2)]
	}
	b, _ := json.Marshal(c)
	return b
}

func renameKind(n *Node, from, to string) {
	if n.K == from {
		n.K = to
	}
	for i := range n.Kids {
		renameKind(&n.Kids[i], from, to)
	}
}

// twinnable: no files (both routines would append to the same file) and no
// leaf that defines a function while it runs.
func twinnable(n *Node) bool {
	for _, k := range []string{"file", "recur", "fwd", "reuwp", "fn"} {
		if hasKind(n, k) {
			return false
		}
	}
	return true
}

// ---- rendering ----

func seq(kids []string) string { return strings.Join(kids, " ") }

func (n *Node) render(dir string, b *strings.Builder) {
	kid := func(i int) string {
		var kb strings.Builder
		n.Kids[i].render(dir, &kb)
		return kb.String()
	}
	all := func() string {
		var parts []string
		for i := range n.Kids {
			parts = append(parts, kid(i))
		}
		return seq(parts)
	}
	switch n.K {
	case "val":
		b.WriteString("(sim-emit \"leaf\" \"val\")")
	case "ret":
		val, form := "7", " 7"
		if n.ID > 0 {
			// every leaf gives a value of its own, so that the value a block
			// yields is attributable to one leaf
			val = fmt.Sprint(1000 + n.ID)
			form = " " + val
		}
		if n.NilVal {
			val, form = "nil", []string{"", " nil", " '()"}[n.ID%3]
		}
		if n.Name == "nil" {
			fmt.Fprintf(b, "(progn (sim-emit \"leaf\" \"ret\" \"nil\" \"%s\") (return%s))", val, form)
		} else {
			if form == "" {
				form = " nil"
			}
			fmt.Fprintf(b, "(progn (sim-emit \"leaf\" \"ret\" \"%s\" \"%s\") (return-from %s%s))", n.Name, val, fnName(n.Name, dir), form)
		}
	case "go":
		fmt.Fprintf(b, "(progn (sim-emit \"leaf\" \"go\" \"%s\") (go %s))", n.Name, n.Name)
	case "goback":
		// taken the first time only, so that the program ends
		fmt.Fprintf(b, "(when (sim-once %d) (sim-emit \"leaf\" \"go\" \"%s\") (go %s))", n.ID, n.Name, n.Name)
	case "err":
		fmt.Fprintf(b, "(progn (sim-emit \"signal\" \"%s\") %s)", n.Name, errForm(n.Name))
	case "fwd":
		// The caller is defined - and its call of the callee compiled - before
		// the callee exists; the callee leaves through (return-from callee ..)
		// from inside a loop and an unwind-protect.
		u := fmt.Sprintf("%d%s", n.ID, filepath.Base(dir))
		fmt.Fprintf(b, "(progn (defun fcaller%s () (list 'got (fcallee%s))) (defun fcallee%s () (dolist (x '(1 2 3)) (unwind-protect (when (= x 2) (return-from fcallee%s 5)) (sim-emit \"fwd-cleanup\" x))) 'fell-through) (sim-emit \"fwd\" (fcaller%s)) (sim-emit \"fwd\" (fcaller%s)))", u, u, u, u, u, u)
	case "recur":
		// A function whose cleanup re-enters the function while its own
		// return-from is still on its way to the block: the exit must yield
		// the value given at that activation. Called twice (the second call
		// runs the already compiled body).
		w := fmt.Sprintf("w%d%s", n.ID, filepath.Base(dir))
		fmt.Fprintf(b, "(progn (defun %s (n) (block wb (unwind-protect (return-from wb n) (when (> n 0) (sim-emit \"walk\" n (%s (- n 1))))))) (sim-emit \"walktop\" (%s 2)) (sim-emit \"walktop\" (%s 2)))", w, w, w, w)
	case "reuwp":
		// activation k (of 2, 1, 0) signals an error after the activations
		// inside it have completed; every activation's cleanup has to run
		u := fmt.Sprintf("ru%d%s", n.ID, filepath.Base(dir))
		fmt.Fprintf(b, "(progn (defun %s (n) (unwind-protect (progn (when (> n 0) (%s (- n 1))) (sim-emit \"ru-body\" n) (when (= n %d) (sim-emit \"signal\" \"simple\") (error \"plain error\"))) (sim-emit \"ru-cleanup\" n))) (ignore-errors (%s 2)) (sim-emit \"ru-done\"))", u, u, n.ID%3, u)
	case "seq":
		fmt.Fprintf(b, "(progn %s)", all())
	case "let":
		fmt.Fprintf(b, "(let ((v%d %d)) %s)", n.ID, n.ID, all())
	case "when":
		fmt.Fprintf(b, "(when t %s)", all())
	case "unless":
		fmt.Fprintf(b, "(unless nil %s)", all())
	case "cond":
		fmt.Fprintf(b, "(cond (nil 'no) (t %s))", all())
	case "case":
		fmt.Fprintf(b, "(case 1 (2 'no) (1 %s))", all())
	case "ecase":
		fmt.Fprintf(b, "(ecase 1 ((2 3) 'no) ((1 4) %s))", all())
	case "casedef":
		fmt.Fprintf(b, "(case 5 (1 'no) (%s %s))", []string{"t", "otherwise"}[n.ID%2], all())
	case "typecase":
		fmt.Fprintf(b, "(typecase 1 (string 'no) (fixnum %s))", all())
	case "etypecase":
		fmt.Fprintf(b, "(etypecase \"s\" (fixnum 'no) (string %s))", all())
	case "progv":
		fmt.Fprintf(b, "(progv '(c07-pv%d) '(1) %s)", n.ID, all())
	case "wots":
		fmt.Fprintf(b, "(with-output-to-string (ws%d) %s)", n.ID, all())
	case "wifs":
		fmt.Fprintf(b, "(with-input-from-string (ws%d \"abc\") %s)", n.ID, all())
	case "wifo":
		fmt.Fprintf(b, "(with-input-from-octets (ws%d \"abc\") %s)", n.ID, all())
	case "wsio":
		fmt.Fprintf(b, "(with-standard-io-syntax %s)", all())
	case "fn":
		// the kids are the body of a function defined here: exits stay
		// inside it, (return-from fnN v) leaves through its implicit block
		// (the name is unique per case: redefining a function of an earlier
		// case of the same process takes another path through defun - the
		// determinism self-test showed digests that depended on it)
		fmt.Fprintf(b, "(progn (defun %s () %s) (let ((bv%d (%s))) (sim-emit \"bend\" \"fn%d\" bv%d) bv%d))", fnName(n.Name, dir), all(), n.ID, fnName(n.Name, dir), n.ID, n.ID, n.ID)
	case "wos":
		fmt.Fprintf(b, "(with-open-stream (ws%d (make-string-input-stream \"abc\")) %s)", n.ID, all())
	case "letstar":
		fmt.Fprintf(b, "(let* ((v%d 1) (w%d v%d)) %s)", n.ID, n.ID, n.ID, all())
	case "mvb":
		fmt.Fprintf(b, "(multiple-value-bind (v%d w%d) (values 1 2) %s)", n.ID, n.ID, all())
	case "or":
		fmt.Fprintf(b, "(or nil %s)", all())
	case "and":
		fmt.Fprintf(b, "(and t %s)", all())
	case "prog1":
		fmt.Fprintf(b, "(prog1 %s)", all())
	case "prog2":
		fmt.Fprintf(b, "(prog2 'first %s)", all())
	case "mvp1":
		fmt.Fprintf(b, "(multiple-value-prog1 %s)", all())
	case "wslots":
		fmt.Fprintf(b, "(with-slots (a) c07-inst %s)", all())
	case "loop":
		fmt.Fprintf(b, "(let ((lv%d (loop %s (return 'lp)))) (sim-emit \"bend\" \"nil\" lv%d) lv%d)", n.ID, all(), n.ID, n.ID)
	case "doall":
		// every symbol of every package: the body leaves in its first round
		fmt.Fprintf(b, "(let ((lv%d (do-all-symbols (e%d) %s (return 'dal)))) (sim-emit \"bend\" \"nil\" lv%d) lv%d)", n.ID, n.ID, all(), n.ID, n.ID)
	case "select":
		// the clause of a select is a body: the channel always holds an item
		fmt.Fprintf(b, "(progn (channel-push c07-sel 1) (select (c07-sel sv%d %s)))", n.ID, all())
	case "wzw":
		fmt.Fprintf(b, "(with-zip-writer (zw%d (make-string-output-stream)) %s)", n.ID, all())
	case "dolist", "dotimes", "do", "prog", "dostar", "progstar", "dovector", "dosym", "doext":
		body := all()
		res := ""
		if n.ResKid && !n.Tags && len(n.Kids) > 1 {
			var parts []string
			for i := 0; i < len(n.Kids)-1; i++ {
				parts = append(parts, kid(i))
			}
			body = seq(parts)
			res = " " + kid(len(n.Kids)-1)
		}
		if n.Tags {
			var parts []string
			for i := range n.Kids {
				if i >= n.firstTag() {
					parts = append(parts, fmt.Sprintf("%s (sim-emit \"at\" \"%s\")", n.tag(i), n.tag(i)))
				}
				parts = append(parts, kid(i))
			}
			body = seq(parts)
		}
		items, count, first := "'(1 2)", "2", "0"
		if n.Zero {
			items, count, first = "'()", []string{"0", "-1"}[n.ID%2], "2"
		}
		head := fmt.Sprintf("dolist (e%d %s%s)", n.ID, items, res)
		switch n.K {
		case "dotimes":
			head = fmt.Sprintf("dotimes (i%d %s%s)", n.ID, count, res)
		case "dovector":
			vec := "(vector 1 2)"
			if n.Zero {
				vec = "(vector)"
			}
			head = fmt.Sprintf("dovector (e%d %s%s)", n.ID, vec, res)
		case "dosym", "doext":
			// a package made by the harness: two exported variables / none
			pk := "c07-two"
			if n.Zero {
				pk = "c07-zero"
			}
			head = fmt.Sprintf("%s (e%d (find-package \"%s\")%s)", map[string]string{"dosym": "do-symbols", "doext": "do-external-symbols"}[n.K], n.ID, pk, res)
		case "do", "dostar":
			if res == "" {
				res = " 'done"
			}
			head = fmt.Sprintf("do ((dv%d %s (1+ dv%d)) (dw%d 5)) ((>= dv%d 2)%s)", n.ID, first, n.ID, n.ID, n.ID, res)
			if n.K == "dostar" {
				head = "do*" + head[2:]
			}
		case "prog":
			head = fmt.Sprintf("prog ((pv%d 1))", n.ID)
		case "progstar":
			head = fmt.Sprintf("prog* ((pv%d 1) (pw%d pv%d))", n.ID, n.ID, n.ID)
		}
		fmt.Fprintf(b, "(let ((lv%d (%s %s))) (sim-emit \"bend\" \"nil\" lv%d) lv%d)", n.ID, head, body, n.ID, n.ID)
	case "lambda":
		fmt.Fprintf(b, "(funcall (lambda (a%d) %s) %d)", n.ID, all(), n.ID)
	case "mapc":
		// the body is a closure called by a built-in function that takes a
		// function argument: an exit taken in it leaves mapc as well
		fmt.Fprintf(b, "(mapc (lambda (a%d) %s) '(1 2))", n.ID, all())
	case "send":
		// the body is a closure that a flavors method funcalls: the method's
		// scope reaches the enclosing blocks only through the closure
		fmt.Fprintf(b, "(send c07-caller :call (lambda (a%d) %s))", n.ID, all())
	case "block":
		// the value is kept in a variable so that a marker can tell when the
		// block has ended, whichever way it ended
		fmt.Fprintf(b, "(let ((bv%d (block %s %s))) (sim-emit \"bend\" \"%s\" bv%d) bv%d)", n.ID, n.Name, all(), n.Name, n.ID, n.ID)
	case "tagbody":
		b.WriteString("(tagbody ")
		for i := range n.Kids {
			if i >= n.firstTag() {
				// the marker right after the tag tells that the go arrived
				fmt.Fprintf(b, " %s (sim-emit \"at\" \"%s\") ", n.tag(i), n.tag(i))
			}
			b.WriteString(kid(i))
		}
		b.WriteString(")")
	case "ignore":
		fmt.Fprintf(b, "(ignore-errors %s)", all())
	case "recover":
		if n.HErr != "" {
			fmt.Fprintf(b, "(recover rec%d (progn (sim-emit \"recovered\" %d) (sim-emit \"signal\" \"%s\") %s) %s)", n.ID, n.ID, n.HErr, errForm(n.HErr), all())
			break
		}
		fmt.Fprintf(b, "(recover rec%d (sim-emit \"recovered\" %d) %s)", n.ID, n.ID, all())
	case "uwp":
		cerr := ""
		if n.CErr {
			cerr = " (sim-emit \"signal\" \"simple\") (error \"error in cleanup\")"
		}
		if n.Direct && len(n.Kids) == 1 {
			// the enter marker comes right before the form; the interrupt is
			// not delivered on unwind-protect's own step (see run)
			pre, form := "", kid(0)
			if k := n.Kids[0]; k.K == "err" {
				pre, form = fmt.Sprintf("(sim-emit \"signal\" \"%s\") ", k.Name), errForm(k.Name)
			}
			fmt.Fprintf(b, "(progn %s(sim-emit \"enter-d\" %d) (unwind-protect %s (sim-emit \"cleanup\" %d) (sim-emit \"cleanup2\" %d)%s))", pre, n.ID, form, n.ID, n.ID, cerr)
			break
		}
		if n.CKid && len(n.Kids) > 1 {
			var parts []string
			for i := 0; i < len(n.Kids)-1; i++ {
				parts = append(parts, kid(i))
			}
			fmt.Fprintf(b, "(unwind-protect (progn (sim-emit \"enter\" %d) %s) (sim-emit \"cleanup\" %d) %s (sim-emit \"cleanup3\" %d)%s)", n.ID, seq(parts), n.ID, kid(len(n.Kids)-1), n.ID, cerr)
			break
		}
		// two cleanup forms: the second must follow the first, once
		fmt.Fprintf(b, "(unwind-protect (progn (sim-emit \"enter\" %d) %s) (sim-emit \"cleanup\" %d) (sim-emit \"cleanup2\" %d)%s)", n.ID, all(), n.ID, n.ID, cerr)
	case "lock":
		if n.Direct {
			// the kids are body forms of with-mutex-lock itself; cs-left is
			// emitted after the form has been left, so every marker between
			// cs-enter and cs-left was emitted with the mutex held
			fmt.Fprintf(b, "(unwind-protect (with-mutex-lock m%d (sim-emit \"csd-enter\" %d) %s) (sim-emit \"cs-left\" %d))", n.Mx, n.Mx, all(), n.Mx)
			break
		}
		// cs-leave is emitted by a cleanup inside the lock, i.e. while the
		// mutex is still held, on every path
		fmt.Fprintf(b, "(with-mutex-lock m%d (unwind-protect (progn (sim-emit \"cs-enter\" %d) %s) (sim-emit \"cs-leave\" %d)))", n.Mx, n.Mx, all(), n.Mx)
	case "file":
		path := filepath.Join(dir, fmt.Sprintf("f%d.txt", n.ID))
		tail := ""
		if n.Close {
			tail = fmt.Sprintf(" (close f%d) (sim-emit \"closed\" %d)", n.ID, n.ID) // the implicit close then finds it closed
		}
		if n.Close {
			// a second write and the explicit close follow the body
			tail = fmt.Sprintf(" (format f%d \"line~%%\") (sim-emit \"wrote\" %d)%s", n.ID, n.ID, tail)
		}
		if n.ConstVar {
			// the variable is a constant: binding it fails - with the file open
			fmt.Fprintf(b, "(progn (sim-emit \"signal\" \"constvar\") (with-open-file (c07-const-stream %q :direction :output :if-exists :append :if-does-not-exist :create) (sim-emit \"opened\" %d) %s))", path, n.ID, all())
			break
		}
		// without Close the body is the last thing in the form, so that an
		// exit in its last position leaves through with-open-file
		fmt.Fprintf(b, "(with-open-file (f%d %q :direction :output :if-exists :append :if-does-not-exist :create) (sim-emit \"opened\" %d) (format f%d \"line~%%\") (sim-emit \"wrote\" %d) %s%s)",
			n.ID, path, n.ID, n.ID, n.ID, all(), tail)
	}
}

// fnName is the name a generated function (node kind "fn", block name fnN)
// has in the program text: unique per case.
func fnName(name, dir string) string {
	if strings.HasPrefix(name, "fn") {
		return name + "x" + filepath.Base(dir)
	}
	return name
}

func errForm(kind string) string {
	switch kind {
	case "div0":
		return "(/ 1 0)"
	case "type":
		return "(car 5)"
	case "unbound":
		return "(+ 1 c07-never-bound-variable)"
	case "undef":
		// the operator cannot be resolved: the error comes from looking the
		// function up, before anything of the form is evaluated
		return "(c07-never-defined-function 1)"
	}
	return "(error \"plain error\")"
}

func (c *Case) source(dir string) string {
	var b strings.Builder
	b.WriteString("(progn (unless (boundp 'c07-caller) (defflavor c07-caller-flavor () ()) (defmethod (c07-caller-flavor :call) (f) (funcall f 1)) (defvar c07-caller (make-instance 'c07-caller-flavor)) (defclass c07-cls () ((a :initform 1))) (defvar c07-inst (make-instance 'c07-cls)))\n")
	b.WriteString("(let ((c07-sel (make-channel 64)) ")
	for i := 0; i < c.Mutexes; i++ {
		fmt.Fprintf(&b, "(m%d (make-mutex)) ", i)
	}
	b.WriteString(")\n")
	for i := 0; i < c.Mutexes; i++ {
		fmt.Fprintf(&b, " (run (with-mutex-lock m%d (sim-emit \"obs\" %d)))\n", i, i)
	}
	b.WriteString(" ")
	if c.Twin {
		// a function: its body is compiled once and shared by all callers
		tf := "c07-twin-" + filepath.Base(dir)
		fmt.Fprintf(&b, "(defun %s (twa) ", tf)
		if c.Prog.K == "seq" {
			// the top-level parts are the body forms themselves: compiled
			// when the function is defined, shared before anybody ran them
			for i := range c.Prog.Kids {
				c.Prog.Kids[i].render(dir, &b)
				b.WriteString(" ")
			}
		} else {
			c.Prog.render(dir, &b)
		}
		b.WriteString(")\n(let ((tw (make-channel 2)))\n")
		if c.Salt%2 == 0 {
			// half of the cases: one call before the two routines start, so
			// that every form has been compiled and evaluated once
			fmt.Fprintf(&b, " (recover rec nil (%s 0))\n", tf)
		}
		// one (run ...) form started twice: both routines evaluate the same
		// call site, and through it the same compiled body
		fmt.Fprintf(&b, " (dolist (tv '(1 2)) (run (progn (recover rec (sim-emit \"twin-cond\") (sim-emit \"twin-start\") (%s 0) (sim-emit \"twin-val\")) (channel-push tw 1))))\n", tf)
		b.WriteString(" (channel-pop tw) (channel-pop tw))))\n")
		return b.String()
	}
	c.Prog.render(dir, &b)
	b.WriteString("))\n")
	return b.String()
}

// ---- execution ----

var (
	calOnce sync.Once
	// errClass is the condition class each error leaf has when it is
	// signalled directly at top level (calibrated from the running code, so
	// no constant of the implementation is copied).
	errClass = map[string]string{}
	errMsg   = map[string]string{}
)

func calibrate() {
	// the packages do-symbols / do-external-symbols walk over
	two := slip.DefPackage("c07-two", nil, "two exported variables")
	two.Set("aa", slip.Fixnum(1)).Export = true
	two.Set("bb", slip.Fixnum(2)).Export = true
	slip.DefPackage("c07-zero", nil, "no symbols")
	for _, k := range errLeaves {
		r := lispsim.Eval(lispsim.Read(errForm(k)), slip.NewScope())
		errClass[k] = r.Cond
		errMsg[k] = r.Msg
	}
	{
		sc := slip.NewScope()
		sc.InterruptCheck = func() { panic(&slip.Panic{Message: "Keyboard interrupt"}) }
		r := lispsim.Eval(lispsim.Read("(+ 1 2)"), sc)
		errClass["interrupt"] = r.Cond
	}
	errClass["cleanup"] = errClass["simple"]
	{
		// a with-open-file whose stream variable is a constant
		lispsim.Eval(lispsim.Read("(defconstant c07-const-stream 1)"), slip.NewScope())
		tmp := filepath.Join(os.TempDir(), fmt.Sprintf("c07-calib-%d.txt", os.Getpid()))
		r := lispsim.Eval(lispsim.Read(fmt.Sprintf("(with-open-file (c07-const-stream %q :direction :output :if-exists :append :if-does-not-exist :create) 1)", tmp)), slip.NewScope())
		_ = os.Remove(tmp)
		errClass["constvar"] = r.Cond
		errMsg["constvar"] = r.Msg
	}
	// warm lazily initialised interpreter state
	lispsim.Eval(lispsim.Read(`(let ((m (make-mutex))) (block b (tagbody (unwind-protect (with-mutex-lock m (ignore-errors (error "x"))) 1) (go e) e) (dolist (x '(1)) (dotimes (i 1) (cond (t (when t (funcall (lambda (a) a) 1)))))) (return-from b 1)))`), slip.NewScope())
}

func (e *engine) setup() {
	if e.dir != "" {
		return
	}
	root := "/dev/shm"
	if fi, err := os.Stat(root); err != nil || !fi.IsDir() {
		root = os.TempDir()
	}
	d, err := os.MkdirTemp(root, "verif-c07-")
	if err != nil {
		panic(err)
	}
	e.dir = d
}

// Close removes the scratch directory.
func (e *engine) Close() {
	if e.dir != "" {
		_ = os.RemoveAll(e.dir)
	}
}

type mark struct {
	task int
	text string
}

type runOut struct {
	res     sched.Result
	s       *sched.Sched
	marks   []mark
	mainRes lispsim.Result
	tp      *tape.Tape
	evals   int // evaluation steps of task 0
	fired   bool
	leaked  []string
	errs    int
	files   map[int]int // lines found in each file after the run
	// markerSteps are the evaluation steps of task 0 that evaluate a marker
	// (and the step that enters a protected form right before its enter
	// marker). Interrupts are not delivered there, so that a marker is
	// emitted iff the point it marks was reached.
	markerSteps map[int]bool
}

func (e *engine) run(c *Case, f *Fault) runOut {
	e.n++
	dir := filepath.Join(e.dir, fmt.Sprintf("r%d", e.n))
	_ = os.MkdirAll(dir, 0o755)
	defer os.RemoveAll(dir)
	scope := slip.NewScope()
	if os.Getenv("C07_SRC") != "" {
		fmt.Fprintln(os.Stderr, c.source(dir))
	}
	code := lispsim.Read(c.source(dir))
	var tp *tape.Tape
	if c.Replay {
		tp = tape.Replay(c.Tape)
	} else {
		tp = tape.New(c.TapeSeed)
	}
	var out runOut
	out.tp = tp
	s := sched.New(sched.Config{Policy: c.Policy, SwitchPct: c.SwitchPct, YieldPct: c.YieldPct, PCTDepth: 2, PCTHorizon: 2000, HoldPct: holdPct(c),
		Salt: c.Salt, Budget: 300000}, tp)
	out.s = s
	if tf := os.Getenv("C07_TRACE"); tf != "" {
		// debugging aid: the event log of every run, appended to one file
		if tfh, err := os.OpenFile(tf, os.O_APPEND|os.O_CREATE|os.O_WRONLY, 0o644); err == nil {
			defer tfh.Close()
			fmt.Fprintf(tfh, "=== run fault=%v\n", f)
			s.Trace = tfh
		}
	}
	// the production interrupt seam
	scope.InterruptCheck = func() {
		if s.CurID() != 0 {
			return
		}
		out.evals++
		if f != nil && f.Kind == "interrupt" && !out.fired && out.evals == f.At {
			out.fired = true
			out.marks = append(out.marks, mark{0, "interrupt"})
			s.Emit("interrupt", fmt.Sprint(f.At))
			panic(&slip.Panic{Message: "Keyboard interrupt"})
		}
	}
	plan := simos.Plan{}
	if f != nil {
		switch f.Kind {
		case "io-write":
			plan = simos.Plan{ErrStep: f.At, ErrOps: []string{"write"}, Err: syscall.ENOSPC, ErrSticky: true}
		case "io-close":
			plan = simos.Plan{ErrStep: f.At, ErrOps: []string{"close"}, Err: syscall.EIO}
		case "io-open":
			plan = simos.Plan{ErrStep: f.At, ErrOps: []string{"open"}, Err: syscall.EACCES}
		}
	}
	sess := simos.Begin(plan)
	sess.KeepLog = false
	out.markerSteps = map[int]bool{}
	// (the per-run suffix of generated function names shows in a printed
	// exit object, "#<return-result fn5x<run>>": it differs from run to run)
	lw := &lispsim.World{S: s, Scrub: "x" + filepath.Base(dir), OnEmit: func(task int, text string) {
		out.marks = append(out.marks, mark{task, text})
		if task == 0 {
			out.markerSteps[out.evals] = true
			if strings.HasPrefix(text, "enter") || strings.HasPrefix(text, "cs-enter") {
				out.markerSteps[out.evals-1] = true
			}
			if strings.HasPrefix(text, "enter-d") {
				// the next step is unwind-protect's own: an interrupt there
				// comes before the cleanup is armed
				out.markerSteps[out.evals+1] = true
			}
		}
	}}
	lispsim.Begin(lw)
	out.res = s.Run(func() { out.mainRes = lispsim.Eval(code, scope) })
	lispsim.End()
	out.leaked = append(out.leaked, sess.OpenHandles()...)
	out.errs = sess.ErrFired
	sess.End()
	out.files = map[int]int{}
	ents, _ := os.ReadDir(dir)
	for _, en := range ents {
		var id int
		if _, err := fmt.Sscanf(en.Name(), "f%d.txt", &id); err == nil {
			b, _ := os.ReadFile(filepath.Join(dir, en.Name()))
			out.files[id] = strings.Count(string(b), "\n")
		}
	}
	return out
}

func viol(class, f string, a ...any) *harness.Violation {
	return &harness.Violation{Class: class, Detail: fmt.Sprintf(f, a...)}
}

func trace(marks []mark) string {
	var parts []string
	for _, m := range marks {
		if m.task == 0 {
			parts = append(parts, m.text)
		} else {
			parts = append(parts, fmt.Sprintf("[r%d %s]", m.task, m.text))
		}
	}
	if len(parts) > 60 {
		parts = append(append(parts[:30:30], "…"), parts[len(parts)-30:]...)
	}
	return strings.Join(parts, "; ")
}

// judge evaluates the invariants I1-I5 on one run.
func (c *Case) judge(out runOut, f *Fault) *harness.Violation {
	what := "fault-free run"
	if f != nil {
		what = fmt.Sprintf("run with %s at %d", f.Kind, f.At)
	}
	if len(out.res.Panics) > 0 {
		cl, msg := lispsim.ConditionClass(out.res.Panics[0].PanicVal)
		return viol("observer-died", "%s: an observer routine died with %s: %s", what, cl, msg)
	}
	if out.res.Outcome == sched.Deadlock {
		return viol("mutex-not-released", "%s: an observer is still waiting for a mutex after the program ended: %v; trace: %s", what, out.res.Stuck, trace(out.marks))
	}
	if out.res.Outcome == sched.Budget {
		return viol("no-progress", "%s: step budget exhausted: %v", what, out.res.Stuck)
	}
	if len(out.s.Misuse) > 0 {
		return viol("runtime-misuse", "%s: %v; trace: %s", what, out.s.Misuse, trace(out.marks))
	}
	if out.mainRes.Cond == "host-fault" {
		return viol("host-fault", "%s: %s", what, out.mainRes.Msg)
	}
	// I1 + I2: stack discipline of enter/cleanup markers of task 0
	var stack []string
	pendingRet := ""  // a return-from to this block is on its way
	pendingVal := "7" // the value it carries
	pendingGo := ""   // a go to this tag is on its way
	lastCleanup := "" // region whose first cleanup form was the last marker
	inCS := map[string]bool{}
	inDirect := map[string]bool{}
	obsInside := map[string]bool{}
	lastSignal := ""
	wrote := map[string]int{}
	interrupted := false
	// a kid among the cleanup forms emits ordinary markers while an exit is
	// on its way: the marker-order rules below do not apply to such a
	// program (the reference evaluator judges it)
	structural := !hasCKid(&c.Prog)
	for _, m := range out.marks {
		fs := strings.Fields(m.text)
		if m.task != 0 {
			if fs[0] == "obs" && inCS[fs[1]] {
				return viol("mutual-exclusion", "%s: the observer of mutex %s ran while the program was inside with-mutex-lock on it; trace: %s", what, fs[1], trace(out.marks))
			}
			if fs[0] == "obs" && inDirect[fs[1]] {
				obsInside[fs[1]] = true
			}
			continue
		}
		// a marker of the program that follows an observer's marker inside
		// csd-enter .. cs-left was emitted by the body, i.e. with the mutex
		// held - and the observer had it in between
		for mx := range obsInside {
			if inDirect[mx] && !(fs[0] == "cs-left" && fs[1] == mx) {
				return viol("mutual-exclusion", "%s: the observer of mutex %s ran while the body of with-mutex-lock on it was still running (%q came after it); trace: %s", what, mx, m.text, trace(out.marks))
			}
		}
		if !structural {
			pendingRet, pendingGo = "", ""
		}
		if pendingRet != "" {
			// Exit transfer (first sentence of C07): between a return-from and
			// the end of its block only cleanups may run.
			switch fs[0] {
			case "cleanup", "cleanup2", "cs-leave", "cs-left":
			case "bend":
				if fs[1] == pendingRet {
					pendingRet = ""
					// the block yields the value the leaf gave
					if len(fs) > 2 && fs[2] != pendingVal {
						return viol("exit-value", "%s: (return-from %s %s) made its block yield %s; trace: %s", what, fs[1], pendingVal, strings.Join(fs[2:], " "), trace(out.marks))
					}
				}
			case "signal", "interrupt":
				pendingRet = "" // an error took over
			default:
				return viol("exit-not-taken", "%s: after (return-from %s ...) control went on inside the block: %q was reached before the block ended; trace: %s",
					what, pendingRet, m.text, trace(out.marks))
			}
		}
		if pendingGo != "" {
			// after (go tag) only cleanups may run until the form after the tag
			switch fs[0] {
			case "cleanup", "cleanup2", "cs-leave", "cs-left", "bend":
			case "at":
				if fs[1] != pendingGo {
					return viol("go-wrong-tag", "%s: (go %s) arrived at tag %s; trace: %s", what, pendingGo, fs[1], trace(out.marks))
				}
				pendingGo = ""
			case "signal", "interrupt":
				pendingGo = ""
			default:
				return viol("go-not-taken", "%s: after (go %s) control went on: %q was reached before the tag; trace: %s", what, pendingGo, m.text, trace(out.marks))
			}
		}
		switch fs[0] {
		case "leaf":
			if len(fs) >= 3 && fs[1] == "ret" {
				pendingRet, pendingVal = fs[2], "7"
				if len(fs) > 3 {
					pendingVal = fs[3]
				}
			}
			if len(fs) == 3 && fs[1] == "go" {
				pendingGo = fs[2]
			}
		case "interrupt":
			interrupted = true
		case "enter", "enter-d":
			stack = append(stack, fs[1])
		case "cleanup":
			if len(stack) > 0 && stack[len(stack)-1] == fs[1] {
				stack = stack[:len(stack)-1]
				lastCleanup = fs[1]
				break
			}
			for _, open := range stack {
				if open == fs[1] {
					return viol("cleanup-order", "%s: cleanup of region %s ran before the cleanups of the regions inside it %v; trace: %s", what, fs[1], stack, trace(out.marks))
				}
			}
			return viol("cleanup-twice", "%s: cleanup of region %s ran without a matching entry (a second time?); trace: %s", what, fs[1], trace(out.marks))
		case "cleanup2":
			if lastCleanup != fs[1] {
				return viol("cleanup-order", "%s: the second cleanup form of region %s ran without its first cleanup form right before it; trace: %s", what, fs[1], trace(out.marks))
			}
			lastCleanup = ""
		case "cs-enter":
			inCS[fs[1]] = true
		case "cs-leave":
			inCS[fs[1]] = false
		case "csd-enter":
			inDirect[fs[1]] = true
		case "cs-left":
			delete(inDirect, fs[1])
			delete(obsInside, fs[1])
		case "walk":
			if len(fs) == 3 && fs[2] != fmt.Sprint(atoi(fs[1])-1) {
				return viol("exit-value", "%s: (return-from wb %s) in a re-entered function yielded %s to its block; trace: %s", what, fmt.Sprint(atoi(fs[1])-1), fs[2], trace(out.marks))
			}
		case "fwd":
			if got := strings.Join(fs[1:], " "); got != "(got 5)" {
				return viol("exit-value", "%s: a function called through a call site compiled before its definition left with (return-from f 5) but its caller got %s instead of (got 5); trace: %s", what, got, trace(out.marks))
			}
		case "walktop":
			if len(fs) == 2 && fs[1] != "2" {
				return viol("exit-value", "%s: (return-from wb 2) yielded %s after the cleanup re-entered the function; trace: %s", what, fs[1], trace(out.marks))
			}
		case "signal":
			lastSignal = fs[1]
		case "wrote":
			wrote[fs[1]]++
		}
	}
	if pendingRet != "" && out.mainRes.Cond != "" && (f == nil || f.Kind == "interrupt") {
		// a return-from to a block that encloses it lexically never arrived
		// and no error leaf or interrupt took over: the exit itself failed
		return viol("exit-lost", "%s: (return-from %s ...) never reached its block; the program ended with %s: %s; trace: %s",
			what, pendingRet, out.mainRes.Cond, out.mainRes.Msg, trace(out.marks))
	}
	if pendingGo != "" && (f == nil || f.Kind == "interrupt") {
		return viol("go-lost", "%s: (go %s) never arrived at its tag (the run ended with %q); trace: %s", what, pendingGo, out.mainRes.Cond, trace(out.marks))
	}
	if len(stack) > 0 {
		return viol("cleanup-missing", "%s: regions %v were entered but their cleanup never ran; trace: %s", what, stack, trace(out.marks))
	}
	// I4: streams
	if len(out.leaked) > 0 {
		return viol("stream-not-closed", "%s: %d stream(s) opened by with-open-file are still open after the program ended: %v; trace: %s", what, len(out.leaked), out.leaked, trace(out.marks))
	}
	for id, n := range wrote {
		var fid int
		fmt.Sscan(id, &fid)
		if out.files[fid] < n {
			return viol("data-lost", "%s: %d writes to file %s were acknowledged but the file holds %d lines", what, n, id, out.files[fid])
		}
	}
	// I5: condition class (fault-free runs and interrupts; after an I/O
	// fault the surfacing condition is the I/O error's and is not compared)
	if out.mainRes.Cond != "" && (f == nil || f.Kind == "interrupt") && lastSignal != "" {
		// The condition is attributed to the last error leaf only if it
		// carries that leaf's message (calibrated by signalling the leaf
		// directly); an error from anywhere else is not judged here.
		if out.mainRes.Msg == errMsg[lastSignal] || (lastSignal == "simple" && strings.Contains(out.mainRes.Msg, "error in cleanup")) {
			if want := errClass[lastSignal]; out.mainRes.Cond != want {
				return viol("condition-class", "%s: ended with a %s carrying the message of the %s error leaf (%q), which is a %s when signalled directly; trace: %s",
					what, out.mainRes.Cond, lastSignal, out.mainRes.Msg, want, trace(out.marks))
			}
		}
	}
	if out.mainRes.Cond != "" && f == nil {
		// fault-free run: which marker came last, cleanups aside?
		last := ""
		for _, m := range out.marks {
			if m.task != 0 {
				continue
			}
			switch fs := strings.Fields(m.text); fs[0] {
			case "cleanup", "cleanup2", "cs-leave", "cs-left", "bend", "closed":
			case "signal":
				last = "signal " + fs[1]
			default:
				last = fs[0]
			}
		}
		if strings.HasPrefix(last, "signal ") {
			// nothing ran after the error leaf but cleanups: what surfaces is
			// that error, whatever forms it passed through
			if want := errClass[strings.TrimPrefix(last, "signal ")]; out.mainRes.Cond != want {
				return viol("condition-class", "%s: the %s error leaf was the last thing to run, but the program ended with %s (%s) instead of %s; trace: %s",
					what, strings.TrimPrefix(last, "signal "), out.mainRes.Cond, out.mainRes.Msg, want, trace(out.marks))
			}
		} else if lastSignal == "" && pendingRet == "" {
			// no error leaf ran at all and nothing was injected
			return viol("spurious-condition", "%s: no error was signalled by the program but it ended with %s: %s; trace: %s", what, out.mainRes.Cond, out.mainRes.Msg, trace(out.marks))
		}
	}
	_ = interrupted
	return nil
}

func hasCKid(n *Node) bool {
	if n.CKid {
		return true
	}
	for i := range n.Kids {
		if hasCKid(&n.Kids[i]) {
			return true
		}
	}
	return false
}

func atoi(s string) int {
	n := 0
	fmt.Sscan(s, &n)
	return n
}

func countFiles(n *Node) int {
	k := 0
	if n.K == "file" {
		k = 1
	}
	for i := range n.Kids {
		k += countFiles(&n.Kids[i])
	}
	return k
}

func (e *engine) Execute(raw json.RawMessage) (vd harness.Verdict) {
	e.setup()
	calOnce.Do(calibrate)
	slip.VerifResetPrinter() // lazily grown process-global printer state: the same for every case
	var c Case
	if err := json.Unmarshal(raw, &c); err != nil {
		panic(err)
	}
	vd.Faults = map[string]int{}
	vd.Probes = map[string]int{}
	var dryMarkers map[int]bool
	rc := newRefCtx(&c)
	one := func(f *Fault) *harness.Violation {
		out := e.run(&c, f)
		vd.Evals++
		vd.Steps += out.s.Stats.Steps
		vd.Faults["context_switches"] += out.s.Stats.Switches
		if out.fired {
			vd.Faults["interrupt"]++
		}
		vd.Faults["io_error"] += out.errs
		vd.Probes["lock_contended"] += out.s.Stats.LockContended
		for _, m := range out.marks {
			if m.task == 0 && strings.HasPrefix(m.text, "signal") {
				vd.Probes["errors_signalled"]++
			}
		}
		if out.mainRes.Cond != "" && f == nil {
			vd.Probes["unhandled_condition_at_top"]++
		}
		v := c.judge(out, f)
		if v == nil {
			v = rc.judge(out, f, vd.Probes)
		}
		if v != nil {
			p := c
			p.Fault = f
			if f == nil {
				p.NoFaults = true
			}
			p.Tape = append([]uint32{}, out.tp.Rec...)
			p.Replay = true
			vd.Pinned, _ = json.Marshal(p)
			vd.V = v
			return v
		}
		if out.fired || out.errs > 0 || out.s.Stats.Switches > 0 {
			vd.Hashes = append(vd.Hashes, out.s.Hash())
		}
		if f == nil {
			dryMarkers = out.markerSteps
			vd.Extra = map[string]int{"eval_steps": out.evals}
			vd.Probes["eval_steps_total"] += out.evals
		}
		return nil
	}
	if c.Twin {
		// several schedules of the two routines, no injected fault
		tries := 6
		if c.Replay {
			tries = 1
		}
		seed0 := c.TapeSeed
		for k := 0; k < tries; k++ {
			if !c.Replay {
				// a window of a few statements has to be met: vary the policy
				// too (a strict alternation never parks one routine for long)
				c.TapeSeed = tape.Mix(seed0, uint64(k))
				c.Policy = []string{sched.PolicyRandom, sched.PolicyPCT, sched.PolicyRTB, sched.PolicyRandom, sched.PolicyPCT, sched.PolicyRR}[k%6]
				c.SwitchPct = []int{90, 50, 20, 5, 50, 50}[k%6]
			}
			out := e.run(&c, nil)
			vd.Evals++
			vd.Steps += out.s.Stats.Steps
			vd.Faults["context_switches"] += out.s.Stats.Switches
			vd.Probes["twin_runs"]++
			if v := rc.judgeTwin(out, vd.Probes); v != nil {
				p := c
				p.Tape = append([]uint32{}, out.tp.Rec...)
				p.Replay = true
				vd.Pinned, _ = json.Marshal(p)
				vd.V = v
				return
			}
			if out.s.Stats.Switches > 0 {
				vd.Hashes = append(vd.Hashes, out.s.Hash())
			}
		}
		return
	}
	if c.Fault != nil {
		one(c.Fault)
		return
	}
	if one(nil) != nil || c.NoFaults {
		return
	}
	steps := vd.Extra["eval_steps"]
	if steps > 400 {
		steps = 400
	}
	for k := 1; k <= steps; k++ {
		if dryMarkers[k] {
			vd.Probes["interrupt_points_skipped_marker"]++
			continue
		}
		if one(&Fault{Kind: "interrupt", At: k}) != nil {
			return
		}
	}
	if nf := countFiles(&c.Prog); nf > 0 {
		for k := 1; k <= 3; k++ {
			if one(&Fault{Kind: "io-write", At: k}) != nil {
				return
			}
		}
		if one(&Fault{Kind: "io-close", At: 1}) != nil {
			return
		}
		if one(&Fault{Kind: "io-open", At: 1}) != nil {
			return
		}
	}
	return
}

// ---- shrinking ----

// validTargets reports whether every return-from names an enclosing block (or
// "nil" inside a loop) and every go names a later tag of an enclosing tagbody
// or tagged loop - a shrink candidate must stay a legal program.
func validTargets(n *Node, blocks, tags, btags []string) bool {
	switch n.K {
	case "ret":
		return contains(blocks, n.Name)
	case "go":
		return contains(tags, n.Name)
	case "goback":
		return contains(btags, n.Name)
	}
	for i := range n.Kids {
		b, t, bt := blocks, tags, btags
		if n.K == "fn" {
			b, t, bt = []string{n.Name}, nil, nil
		}
		if n.K == "block" {
			b = append(append([]string{}, blocks...), n.Name)
		}
		if loopKind(n.K) {
			b = append(append([]string{}, blocks...), "nil")
		}
		if n.tagged() {
			t = append([]string{}, tags...)
			for j := i + 1; j < len(n.Kids); j++ {
				t = append(t, n.tag(j))
			}
			bt = append([]string{}, btags...)
			for j := n.firstTag(); j <= i; j++ {
				bt = append(bt, n.tag(j))
			}
		}
		if !validTargets(&n.Kids[i], b, t, bt) {
			return false
		}
	}
	return true
}

func contains(xs []string, x string) bool {
	for _, y := range xs {
		if x == y {
			return true
		}
	}
	return false
}

func (e *engine) Shrink(raw json.RawMessage) (out []json.RawMessage) {
	var c Case
	_ = json.Unmarshal(raw, &c)
	emit := func(n Case) {
		if !validTargets(&n.Prog, nil, nil, nil) {
			return
		}
		// after a structural change the fault position and schedule are
		// searched again
		if n.Fault != nil && n.Fault.Kind == "interrupt" {
			n.Fault = nil
		}
		n.Replay = false
		n.Tape = nil
		b, _ := json.Marshal(n)
		out = append(out, b)
	}
	var walk func(path []int, n *Node)
	replace := func(path []int, with Node) Case {
		nc := c
		nc.Prog = cloneNode(c.Prog)
		cur := &nc.Prog
		for _, i := range path {
			cur = &cur.Kids[i]
		}
		*cur = with
		return nc
	}
	walk = func(path []int, n *Node) {
		for i := range n.Kids {
			// replace the node by one of its kids (only for transparent forms)
			if len(path) > 0 || true {
				switch n.K {
				case "ignore", "recover", "uwp", "lock", "file", "block":
					emit(replace(path, cloneNode(n.Kids[i])))
				default:
					if contains(plainKinds, n.K) || loopKind(n.K) {
						emit(replace(path, cloneNode(n.Kids[i])))
					}
				}
			}
			if len(n.Kids) > 1 {
				nn := cloneNode(*n)
				nn.Kids = append(nn.Kids[:i:i], nn.Kids[i+1:]...)
				if !n.tagged() {
					emit(replace(path, nn))
				}
			}
		}
		if n.K == "err" || n.K == "ret" || n.K == "go" || n.K == "goback" || n.K == "recur" || n.K == "fwd" || n.K == "reuwp" {
			emit(replace(path, Node{K: "val"}))
		}
		if n.NilVal {
			nn := cloneNode(*n)
			nn.NilVal = false
			emit(replace(path, nn))
		}
		if n.ResKid || n.CKid || n.Zero || (n.Tag0 && !hasGoTo(&c.Prog)) {
			nn := cloneNode(*n)
			nn.ResKid, nn.CKid, nn.Tag0, nn.Zero = false, false, false, false
			emit(replace(path, nn))
		}
		if n.Direct || n.Sym {
			nn := cloneNode(*n)
			nn.Direct, nn.Sym = false, false
			if !n.Sym || !hasGoTo(&c.Prog) {
				emit(replace(path, nn))
			}
		}
		if n.CErr {
			nn := cloneNode(*n)
			nn.CErr = false
			emit(replace(path, nn))
		}
		if n.HErr != "" {
			nn := cloneNode(*n)
			nn.HErr = ""
			emit(replace(path, nn))
		}
		if n.ConstVar {
			nn := cloneNode(*n)
			nn.ConstVar = false
			emit(replace(path, nn))
		}
		for i := range n.Kids {
			walk(append(append([]int{}, path...), i), &n.Kids[i])
		}
	}
	walk(nil, &c.Prog)
	if c.YieldPct > 0 {
		n := c
		n.YieldPct = 0
		b, _ := json.Marshal(n)
		out = append(out, b)
	}
	return
}

func cloneNode(n Node) Node {
	c := n
	c.Kids = make([]Node, len(n.Kids))
	for i := range n.Kids {
		c.Kids[i] = cloneNode(n.Kids[i])
	}
	return c
}

// hasGoTo: a program with go leaves names its tags, so the spelling of the
// tags cannot be changed node by node.
func hasGoTo(n *Node) bool { return hasKind(n, "go") || hasKind(n, "goback") }

func hasKind(n *Node, k string) bool {
	if n.K == k {
		return true
	}
	for i := range n.Kids {
		if hasKind(&n.Kids[i], k) {
			return true
		}
	}
	return false
}

func (e *engine) Matches(raw json.RawMessage, v *harness.Violation, f harness.Finding) bool {
	var c Case
	_ = json.Unmarshal(raw, &c)
	ok := false
	for _, cl := range strings.Split(f.Class, "|") {
		if cl == v.Class {
			ok = true
		}
	}
	if !ok {
		return false
	}
	if f.Trigger == "" {
		return true
	}
	if strings.HasPrefix(f.Trigger, "nontail:") {
		got := map[string]bool{}
		goMode = strings.HasPrefix(f.Trigger, "nontail:go:")
		nonTailCrossings(&c.Prog, nil, map[string][]string{}, got)
		goMode = false
		return got[strings.TrimPrefix(f.Trigger, "nontail:")]
	}
	if strings.HasPrefix(f.Trigger, "node:") {
		return hasKind(&c.Prog, strings.TrimPrefix(f.Trigger, "node:"))
	}
	if strings.HasPrefix(f.Trigger, "fault:") {
		return c.Fault != nil && c.Fault.Kind == strings.TrimPrefix(f.Trigger, "fault:")
	}
	return false
}

// exitBlockers are the form kinds (as rendered) whose Lisp form evaluates a
// body; nonTailCrossings reports under which of them some return-from leaf
// sits in a non-final position while its target block lies outside the form.
// goMode selects which exit kind the two walkers below look at: for a go,
// loops are implicit tagbodies and swallow a go aimed further out in any
// position, and the reported kinds carry the prefix "go:".
var goMode bool

func blocksAnyPosition(n *Node) bool {
	k := n.K
	return k == "tagbody" || (k == "file" && n.Close) || (goMode && (loopKind(k) || k == "send"))
}

func nonTailCrossings(n *Node, visible []string, crossing map[string][]string, out map[string]bool) {
	// crossing[blockName] = kinds of forms the exit would cross in non-tail position
	switch n.K {
	case "ret", "go", "goback":
		if (n.K != "ret") == goMode {
			for _, k := range crossing[n.Name] {
				if goMode {
					k = "go:" + k
				}
				out[k] = true
			}
		}
		return
	}
	for i := range n.Kids {
		vis := visible
		cr := crossing
		if n.K == "block" {
			vis = append(append([]string{}, visible...), n.Name)
		}
		if loopKind(n.K) {
			vis = append(append([]string{}, visible...), "nil")
		}
		if n.tagged() {
			vis = append([]string{}, vis...)
			for j := 1; j < len(n.Kids); j++ {
				vis = append(vis, n.tag(j))
			}
		}
		last := i == len(n.Kids)-1
		kind := n.K
		// how the kids of this kind are rendered: inside which body form
		nonTail := !last || blocksAnyPosition(n)
		if nonTail && (n.K != "block" || goMode) {
			cr = map[string][]string{}
			for k, v := range crossing {
				cr[k] = v
			}
			for _, b := range visible {
				cr[b] = append(append([]string{}, cr[b]...), kind)
			}
		}
		nonTailCrossings(&n.Kids[i], vis, cr, out)
	}
}

// sanitize replaces return-from leaves that would cross one of the given
// form kinds in non-tail position by plain values.
func sanitize(n *Node, visible []string, unsafe map[string]bool, kinds map[string]bool) {
	if n.K == "ret" || n.K == "go" || n.K == "goback" {
		if (n.K != "ret") == goMode && unsafe[n.Name] {
			*n = Node{K: "val"}
		}
		return
	}
	for i := range n.Kids {
		vis := visible
		us := unsafe
		if n.K == "block" {
			vis = append(append([]string{}, visible...), n.Name)
		}
		if loopKind(n.K) {
			vis = append(append([]string{}, visible...), "nil")
		}
		if n.tagged() {
			vis = append([]string{}, vis...)
			for j := 1; j < len(n.Kids); j++ {
				vis = append(vis, n.tag(j))
			}
		}
		last := i == len(n.Kids)-1
		nonTail := !last || blocksAnyPosition(n)
		if nonTail && (n.K != "block" || goMode) && kinds[n.K] {
			us = map[string]bool{}
			for k := range unsafe {
				us[k] = true
			}
			for _, b := range visible {
				us[b] = true
			}
		}
		sanitize(&n.Kids[i], vis, us, kinds)
	}
}

// ---- the reference evaluator as an oracle ----

type refCtx struct {
	c     *Case
	forms []sx
	bad   string
	dry   *refResult
	// intr holds what the reference evaluator predicts for an interrupt
	// before each of its steps: trace and result, as one string
	intr map[string]bool
}

func newRefCtx(c *Case) *refCtx {
	var b strings.Builder
	c.Prog.render("/ref", &b)
	forms, err := refRead(b.String())
	rc := &refCtx{c: c, forms: forms}
	if err != nil {
		rc.bad = err.Error()
	}
	return rc
}

func refKey(marks []string, res string) string { return strings.Join(marks, "; ") + " => " + res }

func (rr *refResult) result() string {
	if rr.err != "" {
		return "condition " + errClass[rr.err]
	}
	return "value " + rr.value
}

func realResult(out *runOut) string {
	if out.mainRes.Cond != "" {
		return "condition " + out.mainRes.Cond
	}
	if vs, ok := out.mainRes.Raw.(slip.Values); ok {
		// (ignore-errors ...) yields two values after an error; the value of
		// the program is the primary one
		if len(vs) == 0 {
			return "value nil"
		}
		return "value " + normMark(slip.ObjectString(vs[0]))
	}
	return "value " + normMark(out.mainRes.Value)
}

func realMarks(out *runOut) []string {
	var ms []string
	for _, m := range out.marks {
		if m.task == 0 {
			ms = append(ms, normMark(m.text))
		}
	}
	return ms
}

// judge compares a fault-free run marker by marker, and its result, with the
// reference evaluator; a run with an interrupt must equal the reference run
// with the interrupt before one of its steps.
func (rc *refCtx) judge(out runOut, f *Fault, probes map[string]int) *harness.Violation {
	if rc.bad != "" {
		probes["ref_unsupported"]++
		return nil
	}
	if f != nil && f.Kind != "interrupt" {
		return nil
	}
	if rc.dry == nil {
		d := refRun(rc.forms, rc.c.Mutexes, 0)
		rc.dry = &d
	}
	if rc.dry.unsup != "" {
		probes["ref_unsupported"]++
		return nil
	}
	got := realMarks(&out)
	if f == nil {
		probes["ref_compared"]++
		want := rc.dry.marks
		for i := 0; i < len(got) || i < len(want); i++ {
			g, w := "<end of trace>", "<end of trace>"
			if i < len(got) {
				g = got[i]
			}
			if i < len(want) {
				w = want[i]
			}
			if g != w {
				return viol("ref-trace", "fault-free run: marker %d is %q where the reference evaluator has %q; trace: %s; reference: %s", i, g, w,
					strings.Join(got, "; "), strings.Join(want, "; "))
			}
		}
		if g, w := realResult(&out), rc.dry.result(); g != w {
			return viol("ref-result", "fault-free run: the program ended with %s (%s), the reference evaluator with %s; trace: %s", g, out.mainRes.Msg, w, strings.Join(got, "; "))
		}
		return nil
	}
	if !out.fired {
		return nil
	}
	if rc.intr == nil {
		rc.intr = map[string]bool{}
		for q := 1; q <= rc.dry.steps; q++ {
			r := refRun(rc.forms, rc.c.Mutexes, q)
			if r.unsup != "" {
				rc.intr = nil
				rc.dry.unsup = r.unsup
				probes["ref_unsupported"]++
				return nil
			}
			rc.intr[refKey(r.marks, r.result())] = true
		}
		// an interrupt before the program proper (while the mutexes are made
		// and the observers started) ends it at once
		rc.intr[refKey([]string{"interrupt"}, "condition "+errClass["interrupt"])] = true
	}
	probes["ref_interrupt_compared"]++
	if key := refKey(got, realResult(&out)); !rc.intr[key] {
		return viol("ref-interrupt", "run with interrupt at %d: trace and result equal no run of the reference evaluator with the interrupt before one of its %d steps: %s (%s)",
			f.At, rc.dry.steps, key, out.mainRes.Msg)
	}
	return nil
}

// judgeTwin: two routines evaluate the same compiled program at the same
// time; they share nothing but the mutexes, so each one's trace is the trace
// of the program run alone.
func (rc *refCtx) judgeTwin(out runOut, probes map[string]int) *harness.Violation {
	if len(out.res.Panics) > 0 {
		cl, msg := lispsim.ConditionClass(out.res.Panics[0].PanicVal)
		return viol("twin-died", "a routine died with %s: %s", cl, msg)
	}
	if out.res.Outcome == sched.Deadlock {
		return viol("twin-deadlock", "the two routines running the same program never finished: %v; trace: %s", out.res.Stuck, trace(out.marks))
	}
	if out.res.Outcome == sched.Budget {
		return viol("no-progress", "twin run: step budget exhausted: %v", out.res.Stuck)
	}
	if len(out.s.Misuse) > 0 {
		return viol("runtime-misuse", "twin run: %v", out.s.Misuse)
	}
	if os.Getenv("C07_DEBUG") != "" {
		fmt.Fprintln(os.Stderr, "twin races:", out.s.MapRaces, "windows:", out.s.Stats.MapWindows, "trace:", trace(out.marks))
	}
	for _, r := range out.s.MapRaces {
		m := sched.RaceMap(r)
		if strings.HasPrefix(m, "Package.") || m == "allFlavors" || strings.HasPrefix(m, "Function.Args") {
			continue // recorded under C17
		}
		return viol("map-race:"+m, "two routines evaluating the same code meet at %s with nothing ordering them: %s", m, r)
	}
	if rc.bad != "" {
		probes["ref_unsupported"]++
		return nil
	}
	if rc.dry == nil {
		d := refRun(rc.forms, rc.c.Mutexes, 0)
		rc.dry = &d
	}
	if rc.dry.unsup != "" {
		probes["ref_unsupported"]++
		return nil
	}
	want := append([]string{"twin-start"}, rc.dry.marks...)
	if rc.dry.err != "" {
		want = append(want, "twin-cond")
	} else {
		want = append(want, "twin-val")
	}
	per := map[int][]string{}
	for _, m := range out.marks {
		if m.task != 0 && !strings.HasPrefix(m.text, "obs ") {
			per[m.task] = append(per[m.task], normMark(m.text))
		}
	}
	if len(per) != 2 {
		return viol("twin-trace", "expected the traces of two routines, got %d; trace: %s", len(per), trace(out.marks))
	}
	for task, got := range per {
		probes["twin_compared"]++
		if strings.Join(got, "; ") != strings.Join(want, "; ") {
			return viol("twin-trace", "routine %d, evaluating the same code as another routine at the same time, left the trace [%s]; run alone the program leaves [%s]",
				task, strings.Join(got, "; "), strings.Join(want, "; "))
		}
	}
	return nil
}

// holdPct: in twin runs a routine that opens a write window is kept there for
// a while in half of the cases.
func holdPct(c *Case) int {
	if c.Twin {
		return 50
	}
	return 0
}
