package c07

// A reference evaluator for the Lisp subset the C07 generator renders. It is
// written from the Common Lisp rules for block/return-from, tagbody/go,
// unwind-protect and the handler forms - not from slip's code - and it
// interprets the very text that is handed to slip, so the oracle "ordered
// trace of markers and final result vs. a reference evaluator" needs no
// second rendering of the program. An error (or the injected interrupt) is an
// exit of kind exErr; exits are returned, never thrown, so the control rules
// are explicit in every form.
//
// Steps: every evaluation of a list form is one step, which is where slip's
// Function.Eval calls Scope.InterruptCheck. With intrAt = q the evaluator
// signals the interrupt before the q-th step.

import (
	"fmt"
	"regexp"
	"strconv"
	"strings"
)

type (
	sym string
	str string
	sx  any // nil | sym | str | int64 | []sx | *closure | *exitVal | handle
)

type handle struct{ what string }

// multi is what (values ...) yields; only multiple-value-bind looks at it.
type multi []sx

type closure struct {
	params []string
	body   []sx
	env    *env
	block  string // implicit block name of a defun, "" for a lambda
}

const (
	exRet = iota + 1
	exGo
	exErr
)

type exit struct {
	kind int
	act  int    // activation the exit is aimed at (ret, go)
	tag  string // go: the tag
	val  sx     // ret: the value
	err  string // err: simple | div0 | type | unbound | undef | interrupt | cleanup
}

// exitVal is an exit that the harness wrapper (let ((bvN (block ...))) ...)
// holds as the value of its variable while it emits the block-end marker.
type exitVal struct{ ex *exit }

type env struct {
	vars   map[string]*sx
	blocks map[string]int
	tags   map[string]int
	parent *env
}

func (e *env) child() *env { return &env{parent: e} }

func (e *env) lookupVar(n string) (*sx, bool) {
	for c := e; c != nil; c = c.parent {
		if p, ok := c.vars[n]; ok {
			return p, true
		}
	}
	return nil, false
}

func (e *env) lookupBlock(n string) (int, bool) {
	for c := e; c != nil; c = c.parent {
		if a, ok := c.blocks[n]; ok {
			return a, true
		}
	}
	return 0, false
}

func (e *env) lookupTag(n string) (int, bool) {
	for c := e; c != nil; c = c.parent {
		if a, ok := c.tags[n]; ok {
			return a, true
		}
	}
	return 0, false
}

func (e *env) bind(n string, v sx) {
	if e.vars == nil {
		e.vars = map[string]*sx{}
	}
	e.vars[n] = &v
}

type refEval struct {
	marks   []string
	steps   int
	intrAt  int
	fired   bool
	once    map[string]bool
	funcs   map[string]*closure
	nextAct int
	// unsupported is set when the text contains something the evaluator does
	// not know; its verdict is then not used (counted by a probe, expected 0)
	unsupported string
	budget      int
}

// ---- reader ----

func refRead(src string) (out []sx, err error) {
	p := &sxParser{s: src}
	for {
		p.ws()
		if p.i >= len(p.s) {
			return out, nil
		}
		x, e := p.read()
		if e != nil {
			return nil, e
		}
		out = append(out, x)
	}
}

type sxParser struct {
	s string
	i int
}

func (p *sxParser) ws() {
	for p.i < len(p.s) && strings.ContainsRune(" \t\n\r", rune(p.s[p.i])) {
		p.i++
	}
}

func (p *sxParser) read() (sx, error) {
	p.ws()
	if p.i >= len(p.s) {
		return nil, fmt.Errorf("unexpected end")
	}
	switch c := p.s[p.i]; c {
	case '(':
		p.i++
		list := []sx{}
		for {
			p.ws()
			if p.i >= len(p.s) {
				return nil, fmt.Errorf("unterminated list")
			}
			if p.s[p.i] == ')' {
				p.i++
				if len(list) == 0 {
					return nil, nil
				}
				return list, nil
			}
			x, err := p.read()
			if err != nil {
				return nil, err
			}
			list = append(list, x)
		}
	case ')':
		return nil, fmt.Errorf("unexpected )")
	case '\'':
		p.i++
		x, err := p.read()
		if err != nil {
			return nil, err
		}
		return []sx{sym("quote"), x}, nil
	case '"':
		j := p.i + 1
		var b strings.Builder
		for j < len(p.s) && p.s[j] != '"' {
			if p.s[j] == '\\' && j+1 < len(p.s) {
				j++
			}
			b.WriteByte(p.s[j])
			j++
		}
		p.i = j + 1
		return str(b.String()), nil
	default:
		j := p.i
		for j < len(p.s) && !strings.ContainsRune(" \t\n\r()'\"", rune(p.s[j])) {
			j++
		}
		tok := p.s[p.i:j]
		p.i = j
		if n, err := strconv.ParseInt(tok, 10, 64); err == nil {
			return n, nil
		}
		tok = strings.ToLower(tok)
		if tok == "nil" {
			return nil, nil
		}
		return sym(tok), nil
	}
}

// ---- printer (what sim-emit shows) ----

func refPrint(v sx) string {
	switch tv := v.(type) {
	case nil:
		return "nil"
	case sym:
		return string(tv)
	case str:
		return string(tv)
	case int64:
		return strconv.FormatInt(tv, 10)
	case []sx:
		parts := make([]string, len(tv))
		for i, x := range tv {
			parts[i] = refPrintNested(x)
		}
		return "(" + strings.Join(parts, " ") + ")"
	case *exitVal:
		return "#<exit>"
	case multi:
		if len(tv) == 0 {
			return "nil"
		}
		return refPrint(tv[0])
	case *closure:
		return "#<exit>" // never emitted by generated programs
	case handle:
		return "#<exit>"
	}
	return fmt.Sprint(v)
}

func refPrintNested(v sx) string {
	if s, ok := v.(str); ok {
		return strconv.Quote(string(s))
	}
	return refPrint(v)
}

var opaqueRE = regexp.MustCompile(`#<[^>]*>`)

// normMark replaces printed opaque objects (#<return-result b>, #<go 31>) by
// one token, in a marker emitted by the real run.
func normMark(s string) string { return opaqueRE.ReplaceAllString(s, "#<exit>") }

// ---- evaluator ----

func (r *refEval) emit(s string) { r.marks = append(r.marks, s) }

func truthy(v sx) bool { return v != nil }

func (r *refEval) errExit(kind string) *exit { return &exit{kind: exErr, err: kind} }

func (r *refEval) unsup(f string, a ...any) (sx, *exit) {
	if r.unsupported == "" {
		r.unsupported = fmt.Sprintf(f, a...)
	}
	return nil, r.errExit("unsupported")
}

// body evaluates forms in order; an exit ends it.
func (r *refEval) body(forms []sx, e *env) (v sx, ex *exit) {
	for _, f := range forms {
		if v, ex = r.eval(f, e); ex != nil {
			return nil, ex
		}
	}
	return v, nil
}

// tagbody evaluates an implicit or explicit tagbody: atoms are tags.
func (r *refEval) tagbody(items []sx, e *env) *exit {
	r.nextAct++
	act := r.nextAct
	te := e.child()
	te.tags = map[string]int{}
	for _, it := range items {
		if _, isList := it.([]sx); !isList && it != nil {
			te.tags[refPrint(it)] = act
		}
	}
	for i := 0; i < len(items); i++ {
		it := items[i]
		if _, isList := it.([]sx); !isList {
			continue // a tag (or nil) is not evaluated
		}
		_, ex := r.eval(it, te)
		if ex == nil {
			continue
		}
		if ex.kind == exGo && ex.act == act {
			found := false
			for j, jt := range items {
				if _, isList := jt.([]sx); !isList && jt != nil && refPrint(jt) == ex.tag {
					i, found = j, true
					break
				}
			}
			if !found {
				return r.errExit("unsupported")
			}
			continue
		}
		return ex
	}
	return nil
}

// block evaluates forms inside a block named name.
func (r *refEval) block(name string, forms []sx, e *env) (sx, *exit) {
	r.nextAct++
	act := r.nextAct
	be := e.child()
	be.blocks = map[string]int{name: act}
	v, ex := r.body(forms, be)
	if ex != nil && ex.kind == exRet && ex.act == act {
		return ex.val, nil
	}
	return v, ex
}

func (r *refEval) call(c *closure, args []sx) (sx, *exit) {
	if len(args) != len(c.params) {
		return nil, r.errExit("unsupported")
	}
	ce := c.env.child()
	for i, p := range c.params {
		ce.bind(p, args[i])
	}
	if c.block != "" {
		return r.block(c.block, c.body, ce)
	}
	return r.body(c.body, ce)
}

func symName(x sx) string {
	if s, ok := x.(sym); ok {
		return string(s)
	}
	if x == nil {
		return "nil"
	}
	return refPrint(x)
}

// args evaluates argument forms the way a function call does; an exit that
// is not an error is not expected there (the generator never writes one).
func (r *refEval) args(forms []sx, e *env) ([]sx, *exit) {
	out := make([]sx, 0, len(forms))
	for _, f := range forms {
		v, ex := r.eval(f, e)
		if ex != nil {
			return nil, ex
		}
		out = append(out, v)
	}
	return out, nil
}

func (r *refEval) eval(x sx, e *env) (sx, *exit) {
	switch tx := x.(type) {
	case nil, str, int64:
		return x, nil
	case sym:
		if tx == "t" || strings.HasPrefix(string(tx), ":") {
			return tx, nil
		}
		if p, ok := e.lookupVar(string(tx)); ok {
			if ev, isExit := (*p).(*exitVal); isExit {
				// the wrapper's variable: evaluating it continues the exit
				return nil, ev.ex
			}
			return *p, nil
		}
		return nil, r.errExit("unbound")
	case []sx:
		return r.evalForm(tx, e)
	case *goForm:
		return tx.f(e)
	}
	return r.unsup("object %T", x)
}

func (r *refEval) evalForm(f []sx, e *env) (sx, *exit) {
	r.steps++
	r.budget--
	if r.budget < 0 {
		return r.unsup("budget")
	}
	if r.intrAt > 0 && !r.fired && r.steps == r.intrAt {
		r.fired = true
		r.emit("interrupt")
		return nil, r.errExit("interrupt")
	}
	head, ok := f[0].(sym)
	if !ok {
		return r.unsup("head %v", f[0])
	}
	rest := f[1:]
	switch head {
	case "quote":
		return rest[0], nil
	case "progn", "when", "unless", "with-standard-io-syntax":
		forms := rest
		if head == "when" || head == "unless" {
			c, ex := r.eval(rest[0], e)
			if ex != nil {
				return nil, ex
			}
			if truthy(c) != (head == "when") {
				return nil, nil
			}
			forms = rest[1:]
		}
		return r.body(forms, e)
	case "cond":
		for _, cl := range rest {
			clause, _ := cl.([]sx)
			if clause == nil {
				// the clause (nil 'no) reads as a list whose first item is nil
				return r.unsup("cond clause")
			}
			c, ex := r.eval(clause[0], e)
			if ex != nil {
				return nil, ex
			}
			if truthy(c) {
				if len(clause) == 1 {
					return c, nil
				}
				return r.body(clause[1:], e)
			}
		}
		return nil, nil
	case "or", "and":
		var v sx
		if head == "and" {
			v = sym("t")
		}
		for _, f := range rest {
			var ex *exit
			if v, ex = r.eval(f, e); ex != nil {
				return nil, ex
			}
			if mv, isMulti := v.(multi); isMulti {
				// slip tests the values object, Common Lisp the primary
				// value: not a matter of C07, the case is not judged
				_ = mv
				return r.unsup("multiple values tested by %s", head)
			}
			if truthy(v) == (head == "or") {
				return v, nil
			}
		}
		return v, nil
	case "prog1", "multiple-value-prog1", "prog2":
		var keep sx
		for i, f := range rest {
			v, ex := r.eval(f, e)
			if ex != nil {
				return nil, ex
			}
			if (head == "prog2" && i == 1) || (head != "prog2" && i == 0) {
				keep = v
			}
		}
		return keep, nil
	case "case", "ecase":
		key, ex := r.eval(rest[0], e)
		if ex != nil {
			return nil, ex
		}
		for _, cl := range rest[1:] {
			clause, _ := cl.([]sx)
			if len(clause) == 0 {
				return r.unsup("case clause")
			}
			hit := false
			switch k := clause[0].(type) {
			case []sx:
				for _, x := range k {
					hit = hit || x == key
				}
			case sym:
				hit = k == key || (head == "case" && (k == "t" || k == "otherwise"))
			default:
				hit = k == key
			}
			if hit {
				return r.body(clause[1:], e)
			}
		}
		if head == "ecase" {
			return nil, r.errExit("type")
		}
		return nil, nil
	case "typecase", "etypecase":
		key, ex := r.eval(rest[0], e)
		if ex != nil {
			return nil, ex
		}
		for _, cl := range rest[1:] {
			clause, _ := cl.([]sx)
			if len(clause) == 0 {
				return r.unsup("typecase clause")
			}
			hit := false
			switch symName(clause[0]) {
			case "t", "otherwise":
				hit = head == "typecase"
			case "fixnum", "integer", "number":
				_, hit = key.(int64)
			case "string":
				_, hit = key.(str)
			case "symbol":
				_, hit = key.(sym)
			default:
				return r.unsup("type %v", clause[0])
			}
			if hit {
				return r.body(clause[1:], e)
			}
		}
		if head == "etypecase" {
			return nil, r.errExit("type")
		}
		return nil, nil
	case "progv":
		names, ex := r.eval(rest[0], e)
		if ex != nil {
			return nil, ex
		}
		vals, ex := r.eval(rest[1], e)
		if ex != nil {
			return nil, ex
		}
		pe := e.child()
		nl, _ := names.([]sx)
		vl, _ := vals.([]sx)
		for i, nm := range nl {
			var v sx
			if i < len(vl) {
				v = vl[i]
			}
			pe.bind(symName(nm), v)
		}
		return r.body(rest[2:], pe)
	case "with-output-to-string", "with-input-from-string", "with-open-stream", "with-input-from-octets":
		spec, _ := rest[0].([]sx)
		fe := e.child()
		if len(spec) > 1 {
			if _, ex := r.eval(spec[1], e); ex != nil {
				return nil, ex
			}
		}
		fe.bind(symName(spec[0]), handle{"stream"})
		v, ex := r.body(rest[1:], fe)
		if ex == nil && head == "with-output-to-string" {
			return str(""), nil
		}
		return v, ex
	case "make-string-input-stream", "make-string-output-stream":
		if _, ex := r.args(rest, e); ex != nil {
			return nil, ex
		}
		return handle{"stream"}, nil
	case "with-zip-writer":
		// binds a stream; documented to return nil when its body completes
		spec, _ := rest[0].([]sx)
		if _, ex := r.eval(spec[1], e); ex != nil {
			return nil, ex
		}
		ze := e.child()
		ze.bind(symName(spec[0]), handle{"stream"})
		if _, ex := r.body(rest[1:], ze); ex != nil {
			return nil, ex
		}
		return nil, nil
	case "find-package":
		av, ex := r.args(rest, e)
		if ex != nil {
			return nil, ex
		}
		name, _ := av[0].(str)
		return handle{"package:" + string(name)}, nil
	case "channel-push":
		if _, ex := r.args(rest, e); ex != nil {
			return nil, ex
		}
		return nil, nil
	case "select":
		// one clause on a channel that holds an item: (select (ch var body...))
		if len(rest) != 1 {
			return r.unsup("select")
		}
		clause, _ := rest[0].([]sx)
		if _, ex := r.eval(clause[0], e); ex != nil {
			return nil, ex
		}
		ce := e.child()
		ce.bind(symName(clause[1]), int64(1))
		return r.body(clause[2:], ce)
	case "do-symbols", "do-external-symbols", "do-all-symbols":
		// iteration over the symbols of a package: a nil block around an
		// implicit tagbody per symbol, then the result form with the
		// variable bound to nil
		spec, _ := rest[0].([]sx)
		var items []sx
		if head == "do-all-symbols" {
			// unknown many: the harness's body leaves in the first round
			items = make([]sx, 100000)
		} else {
			v, ex := r.eval(spec[1], e)
			if ex != nil {
				return nil, ex
			}
			switch v {
			case handle{"package:c07-two"}:
				items = []sx{sym("aa"), sym("bb")}
			case handle{"package:c07-zero"}:
			default:
				return r.unsup("do-symbols package")
			}
		}
		return r.block("nil", []sx{loopBodyV(func(le *env) (sx, *exit) {
			for _, it := range items {
				ie := le.child()
				ie.bind(symName(spec[0]), it)
				if ex := r.tagbody(rest[1:], ie); ex != nil {
					return nil, ex
				}
				if r.budget < 0 {
					return r.unsup("budget")
				}
			}
			if len(spec) > 2 {
				re := le.child()
				re.bind(symName(spec[0]), nil)
				return r.eval(spec[2], re)
			}
			return nil, nil
		})}, e)
	case "with-slots":
		if symName(rest[1]) != "c07-inst" {
			return r.unsup("with-slots")
		}
		se := e.child()
		se.bind("a", int64(1))
		return r.body(rest[2:], se)
	case "let*":
		binds, _ := rest[0].([]sx)
		le := e.child()
		for _, bx := range binds {
			b, _ := bx.([]sx)
			v, ex := r.eval(b[1], le)
			if ex != nil {
				return nil, ex
			}
			le = le.child()
			le.bind(symName(b[0]), v)
		}
		return r.body(rest[1:], le)
	case "multiple-value-bind":
		vars, _ := rest[0].([]sx)
		v, ex := r.eval(rest[1], e)
		if ex != nil {
			return nil, ex
		}
		me := e.child()
		vals, _ := v.(multi)
		if vals == nil {
			vals = multi{v}
		}
		for i, x := range vars {
			var bv sx
			if i < len(vals) {
				bv = vals[i]
			}
			me.bind(symName(x), bv)
		}
		return r.body(rest[2:], me)
	case "values":
		av, ex := r.args(rest, e)
		if ex != nil {
			return nil, ex
		}
		return multi(av), nil
	case "vector":
		av, ex := r.args(rest, e)
		if ex != nil {
			return nil, ex
		}
		return av, nil
	case "loop":
		return r.block("nil", []sx{loopBodyV(func(le *env) (sx, *exit) {
			for {
				if _, ex := r.body(rest, le); ex != nil {
					return nil, ex
				}
				if r.budget < 0 {
					return r.unsup("budget")
				}
			}
		})}, e)
	case "let":
		binds, _ := rest[0].([]sx)
		le := e.child()
		if len(binds) == 1 {
			if b, _ := binds[0].([]sx); len(b) == 2 {
				name := symName(b[0])
				if strings.HasPrefix(name, "bv") || strings.HasPrefix(name, "lv") {
					// the harness wrapper around a block or a loop: the value
					// (or an exit on its way through) is shown by the marker
					// and handed on
					v, ex := r.eval(b[1], e)
					if ex != nil {
						if ex.kind == exErr {
							return nil, ex
						}
						v = &exitVal{ex}
					}
					le.bind(name, v)
					return r.body(rest[1:], le)
				}
			}
		}
		for _, bx := range binds {
			switch b := bx.(type) {
			case sym:
				le.bind(string(b), nil)
			case []sx:
				var v sx
				if len(b) > 1 {
					var ex *exit
					if v, ex = r.eval(b[1], e); ex != nil {
						return nil, ex
					}
				}
				le.bind(symName(b[0]), v)
			}
		}
		return r.body(rest[1:], le)
	case "block":
		return r.block(symName(rest[0]), rest[1:], e)
	case "return-from", "return":
		name := "nil"
		vf := rest
		if head == "return-from" {
			name = symName(rest[0])
			vf = rest[1:]
		}
		var v sx
		if len(vf) > 0 {
			var ex *exit
			if v, ex = r.eval(vf[0], e); ex != nil {
				return nil, ex
			}
		}
		act, ok := e.lookupBlock(name)
		if !ok {
			return r.unsup("return-from %s without block", name)
		}
		return nil, &exit{kind: exRet, act: act, val: v}
	case "tagbody":
		return nil, r.tagbody(rest, e)
	case "go":
		tag := refPrint(rest[0])
		act, ok := e.lookupTag(tag)
		if !ok {
			return r.unsup("go %s without tag", tag)
		}
		return nil, &exit{kind: exGo, act: act, tag: tag}
	case "unwind-protect":
		v, ex := r.eval(rest[0], e)
		if _, cex := r.body(rest[1:], e); cex != nil {
			return nil, cex // an exit from the cleanup replaces the one in progress
		}
		return v, ex
	case "ignore-errors":
		v, ex := r.body(rest, e)
		if ex != nil && ex.kind == exErr && ex.err != "unsupported" {
			// two values: nil and the condition
			return multi{nil, handle{"condition"}}, nil
		}
		return v, ex
	case "recover":
		v, ex := r.body(rest[2:], e)
		if ex != nil && ex.kind == exErr && ex.err != "unsupported" {
			he := e.child()
			he.bind(symName(rest[0]), handle{"recovered"})
			return r.eval(rest[1], he)
		}
		return v, ex
	case "with-mutex-lock":
		if _, ex := r.eval(rest[0], e); ex != nil {
			return nil, ex
		}
		return r.body(rest[1:], e)
	case "with-open-file":
		spec, _ := rest[0].([]sx)
		if symName(spec[0]) == "c07-const-stream" {
			// a constant can not be bound: the form fails before its body
			return nil, r.errExit("constvar")
		}
		fe := e.child()
		fe.bind(symName(spec[0]), handle{"file"})
		return r.body(rest[1:], fe)
	case "lambda":
		ps, _ := rest[0].([]sx)
		c := &closure{body: rest[1:], env: e}
		for _, p := range ps {
			c.params = append(c.params, symName(p))
		}
		return c, nil
	case "defun":
		ps, _ := rest[1].([]sx)
		c := &closure{body: rest[2:], env: e, block: symName(rest[0])}
		for _, p := range ps {
			c.params = append(c.params, symName(p))
		}
		if r.funcs == nil {
			r.funcs = map[string]*closure{}
		}
		r.funcs[symName(rest[0])] = c
		return rest[0], nil
	case "funcall":
		av, ex := r.args(rest, e)
		if ex != nil {
			return nil, ex
		}
		c, ok := av[0].(*closure)
		if !ok {
			return r.unsup("funcall of %v", av[0])
		}
		return r.call(c, av[1:])
	case "mapc":
		av, ex := r.args(rest, e)
		if ex != nil {
			return nil, ex
		}
		c, ok := av[0].(*closure)
		items, isList := av[1].([]sx)
		if !ok || !isList {
			return r.unsup("mapc")
		}
		for _, it := range items {
			if _, ex := r.call(c, []sx{it}); ex != nil {
				return nil, ex
			}
		}
		return av[1], nil
	case "send":
		// (send c07-caller :call f): the method funcalls f with 1
		av, ex := r.args(rest[2:], e)
		if ex != nil {
			return nil, ex
		}
		c, ok := av[0].(*closure)
		if !ok || symName(rest[1]) != ":call" {
			return r.unsup("send")
		}
		return r.call(c, []sx{int64(1)})
	case "dolist", "dotimes", "dovector":
		spec, _ := rest[0].([]sx)
		v, ex := r.eval(spec[1], e)
		if ex != nil {
			return nil, ex
		}
		var items []sx
		if head != "dotimes" {
			items, _ = v.([]sx)
		} else {
			n, _ := v.(int64)
			for i := int64(0); i < n; i++ {
				items = append(items, i)
			}
		}
		return r.block("nil", []sx{loopBodyV(func(le *env) (sx, *exit) {
			for _, it := range items {
				ie := le.child()
				ie.bind(symName(spec[0]), it)
				if ex := r.tagbody(rest[1:], ie); ex != nil {
					return nil, ex
				}
			}
			if len(spec) > 2 {
				re := le.child()
				re.bind(symName(spec[0]), nil)
				if head == "dotimes" {
					re.bind(symName(spec[0]), int64(len(items)))
				}
				return r.eval(spec[2], re)
			}
			return nil, nil
		})}, e)
	case "do", "do*":
		specs, _ := rest[0].([]sx)
		end, _ := rest[1].([]sx)
		return r.block("nil", []sx{loopBodyV(func(le *env) (sx, *exit) {
			de := le.child()
			for _, sp := range specs {
				s, _ := sp.([]sx)
				v, ex := r.eval(s[1], le)
				if ex != nil {
					return nil, ex
				}
				de.bind(symName(s[0]), v)
			}
			for {
				c, ex := r.eval(end[0], de)
				if ex != nil {
					return nil, ex
				}
				if truthy(c) {
					return r.body(end[1:], de)
				}
				if ex := r.tagbody(rest[2:], de); ex != nil {
					return nil, ex
				}
				vals := make([]sx, len(specs))
				for i, sp := range specs {
					s, _ := sp.([]sx)
					if len(s) > 2 {
						if vals[i], ex = r.eval(s[2], de); ex != nil {
							return nil, ex
						}
					} else {
						p, _ := de.lookupVar(symName(s[0]))
						vals[i] = *p
					}
				}
				for i, sp := range specs {
					s, _ := sp.([]sx)
					de.bind(symName(s[0]), vals[i])
				}
			}
		})}, e)
	case "prog", "prog*":
		binds, _ := rest[0].([]sx)
		return r.block("nil", []sx{loopBody(func(le *env) *exit {
			pe := le.child()
			for _, bx := range binds {
				b, _ := bx.([]sx)
				ie := le
				if head == "prog*" {
					ie = pe
				}
				v, ex := r.eval(b[1], ie)
				if ex != nil {
					return ex
				}
				pe.bind(symName(b[0]), v)
			}
			return r.tagbody(rest[1:], pe)
		})}, e)
	case "sim-emit":
		av, ex := r.argsLoose(rest, e)
		if ex != nil {
			return nil, ex
		}
		parts := make([]string, len(av))
		for i, a := range av {
			parts[i] = refPrint(a)
		}
		r.emit(strings.Join(parts, " "))
		return nil, nil
	case "sim-once":
		av, ex := r.args(rest, e)
		if ex != nil {
			return nil, ex
		}
		k := refPrint(av[0])
		if r.once[k] {
			return nil, nil
		}
		if r.once == nil {
			r.once = map[string]bool{}
		}
		r.once[k] = true
		return sym("t"), nil
	case "error":
		av, ex := r.args(rest, e)
		if ex != nil {
			return nil, ex
		}
		if s, _ := av[0].(str); strings.Contains(string(s), "cleanup") {
			return nil, r.errExit("cleanup")
		}
		return nil, r.errExit("simple")
	case "format", "close":
		if _, ex := r.args(rest[:1], e); ex != nil {
			return nil, ex
		}
		if head == "close" {
			return sym("t"), nil
		}
		return nil, nil
	case "list":
		av, ex := r.args(rest, e)
		if ex != nil {
			return nil, ex
		}
		if len(av) == 0 {
			return nil, nil
		}
		return av, nil
	case "car":
		av, ex := r.args(rest, e)
		if ex != nil {
			return nil, ex
		}
		switch l := av[0].(type) {
		case nil:
			return nil, nil
		case []sx:
			return l[0], nil
		}
		return nil, r.errExit("type")
	case "+", "-", "/", "=", ">", ">=", "1+":
		av, ex := r.args(rest, e)
		if ex != nil {
			return nil, ex
		}
		n := make([]int64, len(av))
		for i, a := range av {
			v, ok := a.(int64)
			if !ok {
				return nil, r.errExit("type")
			}
			n[i] = v
		}
		b := func(c bool) (sx, *exit) {
			if c {
				return sym("t"), nil
			}
			return nil, nil
		}
		switch head {
		case "1+":
			return n[0] + 1, nil
		case "+":
			return n[0] + n[1], nil
		case "-":
			return n[0] - n[1], nil
		case "/":
			if n[1] == 0 {
				return nil, r.errExit("div0")
			}
			if n[0]%n[1] != 0 {
				return r.unsup("ratio")
			}
			return n[0] / n[1], nil
		case "=":
			return b(n[0] == n[1])
		case ">":
			return b(n[0] > n[1])
		case ">=":
			return b(n[0] >= n[1])
		}
	}
	if c, ok := r.funcs[string(head)]; ok {
		av, ex := r.args(rest, e)
		if ex != nil {
			return nil, ex
		}
		return r.call(c, av)
	}
	if strings.Contains(string(head), "never-defined") {
		return nil, r.errExit("undef")
	}
	return r.unsup("operator %s", head)
}

// argsLoose evaluates the arguments of the harness's own marker call: an
// exit held by the wrapper variable is shown, not taken.
func (r *refEval) argsLoose(forms []sx, e *env) ([]sx, *exit) {
	out := make([]sx, 0, len(forms))
	for _, f := range forms {
		if s, ok := f.(sym); ok {
			if p, has := e.lookupVar(string(s)); has {
				out = append(out, *p)
				continue
			}
		}
		v, ex := r.eval(f, e)
		if ex != nil {
			return nil, ex
		}
		out = append(out, v)
	}
	return out, nil
}

// loopBody / loopBodyV wrap a Go function as a form, so that loops can reuse
// block() for their nil block.
type goForm struct {
	f func(*env) (sx, *exit)
}

func loopBody(f func(*env) *exit) sx {
	return &goForm{func(e *env) (sx, *exit) { return nil, f(e) }}
}

func loopBodyV(f func(*env) (sx, *exit)) sx { return &goForm{f} }

// refResult is what the reference evaluator predicts for one run.
type refResult struct {
	marks []string
	value string // printed value when the program returned
	err   string // kind of the error it ended with ("" = returned)
	unsup string
	steps int
}

// refRun evaluates the program text with an interrupt before step intrAt
// (0 = none).
func refRun(forms []sx, mutexes, intrAt int) refResult {
	r := &refEval{intrAt: intrAt, budget: 200000}
	top := &env{}
	for i := 0; i < mutexes; i++ {
		top.bind(fmt.Sprintf("m%d", i), handle{"mutex"})
	}
	top.bind("c07-sel", handle{"channel"})
	v, ex := r.body(forms, top)
	res := refResult{marks: r.marks, unsup: r.unsupported, steps: r.steps}
	if ex != nil {
		if ex.kind != exErr {
			res.unsup = "exit reached the top level"
		}
		res.err = ex.err
		if ex.err == "unsupported" && res.unsup == "" {
			res.unsup = "unsupported"
		}
		return res
	}
	res.value = refPrintNested(v)
	return res
}
