// Package c17 decides property C17: channels, mutexes and synchronized
// objects hold up under concurrency, and programs that share data only
// through them behave like some sequential execution.
//
// Real code: gi:run, make-channel, channel-push/pop/close, select, range,
// time-after, sleep, make-mutex, with-mutex-lock, set-synchronized on CLOS
// and flavors instances, hash tables under a mutex, and the interpreter's
// shared tables (packages, generic functions, printer) used from several
// routines. Simulated: the Go scheduler, channel blocking/wake-up and select
// choice, mutex hand-off, and time.
package c17

import (
	"encoding/json"
	"fmt"
	"io"
	"os"
	"sort"
	"strconv"
	"strings"
	"sync"
	"time"

	"github.com/ohler55/slip"
	"github.com/ohler55/slip/simrt"
	"verif/sim/harness"
	"verif/sim/simkit/lispsim"
	"verif/sim/simkit/sched"
	"verif/sim/simkit/tape"
)

// Case is one generated concurrent program plus its schedule.
type Case struct {
	Scen string `json:"scen"` // s1 producers/consumers, s2 mutex, s3 synchronized objects, s4 interpreter tables
	// s1
	P         int      `json:"p,omitempty"`
	N         int      `json:"n,omitempty"`
	Cap       int      `json:"cap,omitempty"`
	Cons      []string `json:"cons,omitempty"` // range | pop | select | select-tick
	TimeoutMs int      `json:"timeout_ms,omitempty"`
	SleepMs   int      `json:"sleep_ms,omitempty"`
	// ReadPush (s1): producers push with (read-push stream c) from a stream
	// that delivers Chunk numbers per read instead of with channel-push.
	ReadPush bool `json:"read_push,omitempty"`
	// Nils (s1, consumers that range only): after every second item a
	// producer also pushes nil - an ordinary item, which only range can tell
	// from "closed"
	Nils  bool `json:"nils,omitempty"`
	Chunk int  `json:"chunk,omitempty"`
	// s2 / s3
	R     int      `json:"r,omitempty"`
	Iter  int      `json:"iter,omitempty"`
	Exits []string `json:"exits,omitempty"` // per routine: normal | return | error | interrupt
	IntAt int      `json:"int_at,omitempty"`
	// Nested (s2): the main routine starts one more routine from inside its
	// own with-mutex-lock region; that routine locks the same mutex.
	Nested bool   `json:"nested,omitempty"`
	Kind   string `json:"kind,omitempty"` // s3: clos | flavor | hash
	// Resync: every routine calls (set-synchronized o t) again before each update
	Resync bool `json:"resync,omitempty"`
	// s4
	Work []string `json:"work,omitempty"` // per routine: defvar | defun | generic | print | lambda
	// schedule
	// HoldPct: see sched.Config.HoldPct
	HoldPct int `json:"hold_pct,omitempty"`
	Policy      string `json:"policy"`
	SwitchPct   int    `json:"switch_pct"`
	YieldPct    int    `json:"yield_pct"`
	PCTDepth    int    `json:"pct_depth,omitempty"`
	TimeJumpPct int    `json:"time_jump_pct,omitempty"`
	// Procs: the number of processors the program sees (rule R11), 0 = the
	// real one
	Procs int `json:"procs,omitempty"`
	// NoBase (s5): the generic function has no method on t at first - the
	// callers' early calls find no applicable method (error handled) and
	// must find the new method once it is defined (seeded change C17-m2)
	NoBase bool `json:"no_base,omitempty"`
	// GateFirst (s2, with Nested): main takes the mutex and starts its routine
	// from inside the locked region BEFORE any other routine exists (seeded
	// change C17-o2: the lock elided while no routine is alive)
	GateFirst bool `json:"gate_first,omitempty"`
	// ViaFn (s1): every producer is started by one helper function that
	// returns at once; the routine goes on using the function's parameters
	// (seeded change C17-n2: call scopes recycled through a pool)
	ViaFn bool `json:"via_fn,omitempty"`
	// Shorts (s2): before each of the first Shorts long routines main starts
	// a routine that ends at once, so that the number of routines sharing the
	// scope falls to zero and rises again while routines are being started
	// (seeded change C17-n1: the scope lock taken away when the last sharer
	// ends)
	Shorts int `json:"shorts,omitempty"`
	// ConsFirst (s1): the consumers and the closer are started before the
	// producers they wait for
	ConsFirst bool     `json:"cons_first,omitempty"`
	Salt      uint64   `json:"salt"`
	TapeSeed  uint64   `json:"tape_seed"`
	Tape      []uint32 `json:"tape,omitempty"`
	Replay    bool     `json:"replay,omitempty"`
	// KnownRaces names the Go maps whose unordered accesses are listed as
	// known findings (class "map-race:<map>"); races on them are counted,
	// not reported, so that they cannot hide a race on another map.
	// Acc (s3 clos): slots are read and written through generated accessor
	// functions instead of slot-value.
	Acc        bool     `json:"acc,omitempty"`
	KnownRaces []string `json:"known_races,omitempty"`
	// Tries > 0 (confirm cases of known findings only): execute the program
	// under up to Tries different schedules and report the first violation
	// of class Want. A pinned schedule would stop reproducing a race as soon
	// as an unrelated edit moves a scheduling point.
	Tries int    `json:"tries,omitempty"`
	Want  string `json:"want,omitempty"`
}

type engine struct{}

func init() { harness.Register(&engine{}) }

func (e *engine) ID() string { return "C17" }

func (e *engine) Meta() harness.Meta {
	return harness.Meta{
		Level: "exploration",
		Rule: "a case is a seeded concurrent Lisp program of one of four shapes (S1 producers/consumers over buffered and unbuffered channels " +
			"with range/pop/select/select-with-timeout consumers; S2 routines incrementing a counter inside with-mutex-lock and leaving by " +
			"fall-through, return-from, a caught error or an injected interrupt; S3 routines updating a synchronized CLOS/flavors instance or a " +
			"mutex-guarded hash of counters; S4 routines using the interpreter's shared tables - defvar/defun/defmethod/printing/the same lambda - " +
			"compared with each routine run alone) with up to 8 routines, executed under a seeded schedule (random / PCT / run-to-block / " +
			"round-robin, yield density 0-100%, optional clock jumps). evaluations = simulated runs; distinct_nontrivial = distinct fingerprints of " +
			"(event log, context-switch sequence) among runs with at least one context switch",
		Real: []string{"pkg/gi run/make-channel/channel-push/channel-pop/channel-close/select/range/time-after/make-mutex/with-mutex-lock",
			"cl:sleep", "pkg/clos set-synchronized + slot access", "pkg/flavors instances", "slip.Package tables and mutex", "pkg/generic", "slip.Printer", "slip evaluator"},
		Stub: []string{"Go scheduler (token passing)", "channel blocking, wake-up and select choice (values of buffered channels live in the real Go channel)",
			"sync.Mutex blocking", "time (discrete-event clock)"},
		Assumptions: []string{
			"the channel/select model is ours (validated against the real runtime by the conformance self-test)",
			"torn reads of multi-word values (true data races) cannot be observed when one routine executes at a time",
			"programs share data only through channels, mutexes and synchronized objects, as the property requires",
		},
		FaultKinds:    []string{"schedule_perturbation", "clock_jump", "interrupt"},
		QuickCases:    24000,
		ThoroughCases: 400000,
	}
}

func (e *engine) Generate(seed uint64, idx int, tier string, avoid []harness.Finding) json.RawMessage {
	r := tape.NewRand(tape.Mix(seed, uint64(idx)))
	c := Case{Salt: r.Uint64(), TapeSeed: r.Uint64()}
	for _, f := range avoid {
		if m, ok := strings.CutPrefix(f.Class, "map-race:"); ok {
			c.KnownRaces = append(c.KnownRaces, m)
		}
	}
	big := tier == "thorough" && r.Pct(20)
	switch x := r.Intn(100); {
	case x < 34:
		c.Scen = "s1"
		c.P = 1 + r.Intn(3)
		c.N = 1 + r.Intn(6)
		if big {
			c.P, c.N = 1+r.Intn(4), 5+r.Intn(20)
		}
		c.Cap = []int{0, 0, 1, 2, 4, 16}[r.Intn(6)]
		nc := 1 + r.Intn(3)
		if r.Pct(25) {
			nc = 3 + r.Intn(3) // with the closer: up to 8 routines with the producers
			if c.P > 2 {
				c.P = 2
			}
		}
		c.ConsFirst = r.Pct(40)
		for i := 0; i < nc; i++ {
			c.Cons = append(c.Cons, []string{"range", "pop", "select", "select-tick", "select-many", "select-spawn"}[r.Intn(6)])
		}
		c.TimeoutMs = []int{1, 10, 100}[r.Intn(3)]
		if r.Pct(40) {
			c.SleepMs = []int{1, 5, 50}[r.Intn(3)]
		}
		if r.Pct(20) {
			c.ReadPush, c.Chunk, c.SleepMs = true, 1+r.Intn(5), 0
		} else if r.Pct(30) {
			c.ViaFn = true
		} else if r.Pct(25) {
			c.Nils = true
			for i := range c.Cons {
				c.Cons[i] = "range"
			}
		}
	case x < 54:
		c.Scen = "s2"
		c.R = 2 + r.Intn(4)
		c.Iter = 1 + r.Intn(4)
		if big {
			c.R, c.Iter = 2+r.Intn(6), 3+r.Intn(10)
		}
		for i := 0; i < c.R; i++ {
			c.Exits = append(c.Exits, []string{"normal", "normal", "return", "error", "interrupt"}[r.Intn(5)])
		}
		c.IntAt = 1 + r.Intn(10*c.Iter+4)
		c.Nested = r.Pct(35)
		if r.Pct(40) {
			c.Shorts = 1 + r.Intn(c.R)
		}
		c.GateFirst = c.Nested && r.Pct(50)
	case x < 70:
		c.Scen = "s3"
		c.R = 2 + r.Intn(3)
		c.Iter = 1 + r.Intn(4)
		c.Kind = []string{"clos", "flavor", "hash", "struct"}[r.Intn(4)]
		c.Resync = c.Kind != "hash" && r.Pct(40)
		c.Acc = c.Kind == "clos" && r.Pct(50)
	case x < 73:
		c.Scen = "s6"
		c.R = 2 + r.Intn(3)
	case x < 78:
		c.Scen = "s5"
		c.R = 1 + r.Intn(3) // calling routines
		c.Iter = 1 + r.Intn(4)
		c.NoBase = r.Pct(50)
	case x < 82:
		c.Scen = "s7"
		c.R = 2 + r.Intn(3) // defining routines, one qualifier each
		c.Iter = 1 + r.Intn(3)
	case x < 84:
		// S9 (seeded changes C17-k1, C17-k2): routines call ONE generic
		// function with arguments of different classes; an :around method on
		// t is part of every effective method; the routines are started from
		// inside a dolist / dovector, whose scope they keep using
		c.Scen = "s9"
		c.R = 2 + r.Intn(3)
		c.Iter = 1 + r.Intn(5)
		c.Kind = []string{"straight", "dolist", "dolist", "dovector"}[r.Intn(4)]
		c.Nested = r.Pct(40) // a second :around, on one argument's own class
	case x < 89:
		// S10: every worker has an inbox of its own and all workers run ONE
		// function, whose select waits on the inbox it was given (the code of
		// the select form is shared, the channel is not)
		c.Scen = "s10"
		c.R = 2 + r.Intn(3)
		c.N = 1 + r.Intn(4)
		c.Cap = []int{0, 1, 4}[r.Intn(3)]
		c.Kind = []string{"select", "select", "pop"}[r.Intn(3)]
	case x < 92:
		c.Scen = "s8"
		c.R = 1 + r.Intn(3) // jobs, each calls its closure from a routine
		c.Iter = 1 + r.Intn(4)
		c.Kind = []string{"own", "own", "shared-locked", "made-in-routine"}[r.Intn(4)]
	default:
		c.Scen = "s4"
		c.R = 2 + r.Intn(3)
		for i := 0; i < c.R; i++ {
			c.Work = append(c.Work, s4Kinds[r.Intn(len(s4Kinds))])
		}
		if r.Pct(35) {
			// homogeneous: every routine does the same kind of work, which is
			// what makes two routines meet in the same interpreter code
			for i := range c.Work {
				c.Work[i] = c.Work[0]
			}
		}
	}
	c.Policy = []string{sched.PolicyRandom, sched.PolicyRandom, sched.PolicyPCT, sched.PolicyRTB, sched.PolicyRR}[r.Intn(5)]
	c.SwitchPct = []int{5, 20, 50, 90}[r.Intn(4)]
	c.YieldPct = []int{0, 5, 25, 100}[r.Intn(4)]
	c.PCTDepth = 1 + r.Intn(3)
	if c.Scen == "s1" && r.Pct(30) {
		c.TimeJumpPct = []int{1, 5}[r.Intn(2)]
	}
	c.Procs = []int{1, 1, 2, 4, 16}[r.Intn(5)]
	c.HoldPct = []int{0, 0, 25, 60}[r.Intn(4)]
	b, _ := json.Marshal(c)
	return b
}

var s4Kinds = []string{"defvar", "defun", "generic", "print", "print", "printobj", "lambda", "exit", "exit", "defclass", "defflavor",
	"defstruct", "defpackage", "defconstant", "unbind", "apropos", "describe", "unintern", "lookup", "readbase", "readbase"}

// ---- program generation ----

type program struct {
	setup string   // evaluated before the run (definitions)
	main  string   // evaluated by task 0; starts the routines with (run ...)
	solo  []string // s4: each routine's body, to be run alone
}

func (c *Case) program(sfx string) program {
	var b strings.Builder
	switch c.Scen {
	case "s1":
		fmt.Fprintf(&b, "(let ((c (make-channel %d)) (pd (make-channel 64))", c.Cap)
		quits := ""
		for k, kind := range c.Cons {
			if kind == "select-many" {
				fmt.Fprintf(&b, " (q%d (make-channel 1))", k)
				quits += fmt.Sprintf(" (channel-push q%d 1)", k)
			}
		}
		b.WriteString(")\n")
		if c.ViaFn {
			sl := ""
			if c.SleepMs > 0 {
				sl = fmt.Sprintf(" (sleep %g)", float64(c.SleepMs)/1000)
			}
			fmt.Fprintf(&b, " (defun startp%s (base n ch done) (run (progn (dotimes (i n) (channel-push ch (+ base i))%s) (channel-push done 1))))\n", sfx, sl)
		}
		headEnd := b.Len()
		for p := 0; p < c.P; p++ {
			if c.ViaFn {
				fmt.Fprintf(&b, " (startp%s %d %d c pd)\n", sfx, (p+1)*1000, c.N)
				continue
			}
			sl := ""
			if c.SleepMs > 0 {
				sl = fmt.Sprintf(" (sleep %g)", float64(c.SleepMs)/1000)
			}
			if c.ReadPush {
				// rps<p> is bound by the harness to a stream of the same numbers
				fmt.Fprintf(&b, " (run (progn (read-push rps%d c) (channel-push pd 1)))\n", p)
				continue
			}
			if c.Nils {
				sl += " (when (oddp i) (channel-push c nil))"
			}
			fmt.Fprintf(&b, " (run (progn (dotimes (i %d) (channel-push c (+ %d i))%s) (channel-push pd 1)))\n", c.N, (p+1)*1000, sl)
		}
		prodEnd := b.Len()
		fmt.Fprintf(&b, " (run (progn (dotimes (i %d) (channel-pop pd)) %s (channel-close c) (sim-emit \"closed\")))\n", c.P, quits)
		for k, kind := range c.Cons {
			switch kind {
			case "range":
				fmt.Fprintf(&b, " (run (progn (range (lambda (x) (sim-emit \"got\" %d x)) c) (sim-emit \"cdone\" %d)))\n", k, k)
			case "pop":
				fmt.Fprintf(&b, " (run (progn (block done (dotimes (i 1000000) (let ((x (channel-pop c))) (if x (sim-emit \"got\" %d x) (return-from done nil))))) (sim-emit \"cdone\" %d)))\n", k, k)
			case "select-many":
				// more than eight channels: select takes its reflect path, which
				// does not run the clause of a closed channel, so this consumer
				// is told to stop through its own channel right before the close
				// and then drains what is left
				fmt.Fprintf(&b, " (run (let ((d1 (make-channel 1)) (d2 (make-channel 1)) (d3 (make-channel 1)) (d4 (make-channel 1)) (d5 (make-channel 1)) (d6 (make-channel 1)) (d7 (make-channel 1)) (d8 (make-channel 1))) (block done (dotimes (i 1000000) (select (q%[1]d x (block drain (dotimes (j 1000000) (let ((y (channel-pop c))) (if y (sim-emit \"got\" %[1]d y) (return-from drain nil))))) (return-from done nil)) (d1 x 1) (d2 x 1) (d3 x 1) (d4 x 1) (c x (when x (sim-emit \"got\" %[1]d x))) (d5 x 1) (d6 x 1) (d7 x 1) (d8 x 1)))) (sim-emit \"cdone\" %[1]d)))\n", k)
			case "select-spawn":
				// the clause hands its variable to a routine that outlives
				// the clause body: every receive needs its own binding
				fmt.Fprintf(&b, " (run (progn (block done (dotimes (i 1000000) (select (c x (if x (run (sim-emit \"got\" %d x)) (return-from done nil)))))) (sim-emit \"cdone\" %d)))\n", k, k)
			case "select":
				fmt.Fprintf(&b, " (run (progn (block done (dotimes (i 1000000) (select (c x (if x (sim-emit \"got\" %d x) (return-from done nil)))))) (sim-emit \"cdone\" %d)))\n", k, k)
			default:
				// A ticker created once: select caches the evaluated channel
				// of a clause in the code the first time the form runs, so a
				// (time-after d) clause inside a loop would be evaluated
				// only once - a re-evaluation matter (C08), not concurrency.
				fmt.Fprintf(&b, " (run (progn (sim-emit \"tkstart\" %[2]d) (let ((tk (time-ticker %[1]g))) (block done (dotimes (i 1000000) (select (c x (if x (sim-emit \"got\" %[2]d x) (return-from done nil))) (tk tm (sim-emit \"tick\" %[2]d))))) (sim-emit \"cdone\" %[2]d))))\n",
					float64(c.TimeoutMs)/1000, k)
			}
		}
		text := b.String()
		if c.ConsFirst {
			text = text[:headEnd] + text[prodEnd:] + text[headEnd:prodEnd]
		}
		return program{main: text + " nil)\n"}
	case "s10":
		recv := "(select (inbox x (if x (sim-emit \"got\" id x) (return-from done nil))))"
		if c.Kind == "pop" {
			recv = "(let ((x (channel-pop inbox))) (if x (sim-emit \"got\" id x) (return-from done nil)))"
		}
		setup := fmt.Sprintf("(defun worker%s (id inbox) (block done (dotimes (i 1000000) %s)) (sim-emit \"cdone\" id))\n", sfx, recv)
		b.WriteString("(let (")
		for k := 0; k < c.R; k++ {
			fmt.Fprintf(&b, "(in%d (make-channel %d)) ", k, c.Cap)
		}
		b.WriteString(")\n")
		for k := 0; k < c.R; k++ {
			fmt.Fprintf(&b, " (run (worker%s %d in%d))\n", sfx, k, k)
		}
		// one feeder per inbox, so that a worker listening on the wrong inbox
		// does not stop the others from being fed
		for k := 0; k < c.R; k++ {
			fmt.Fprintf(&b, " (run (progn (dotimes (i %d) (channel-push in%d (+ %d i))) (channel-close in%d)))\n", c.N, k, (k+1)*1000, k)
		}
		b.WriteString(" nil)\n")
		return program{setup: setup, main: b.String()}
	case "s2":
		fmt.Fprintf(&b, "(let ((m (make-mutex)) (n 0) (fin (make-channel 64)))\n")
		nestedForm := fmt.Sprintf(" (with-mutex-lock m (run (progn (with-mutex-lock m (sim-emit \"enter\" %[1]d) (setq n (+ n 1)) (sim-emit \"exit\" %[1]d)) (channel-push fin %[1]d))) (sim-emit \"enter\" %[2]d) (setq n (+ n 1)) (sim-emit \"exit\" %[2]d))\n", c.R, c.R+1)
		if c.Nested && c.GateFirst {
			b.WriteString(nestedForm)
		}
		for t := 0; t < c.R; t++ {
			body := fmt.Sprintf("(sim-emit \"enter\" %d) (setq n (+ n 1)) (sim-emit \"exit\" %d)", t, t)
			var crit string
			switch c.Exits[t] {
			case "return":
				crit = fmt.Sprintf("(block out (with-mutex-lock m %s (return-from out nil)))", body)
			case "error":
				crit = fmt.Sprintf("(ignore-errors (with-mutex-lock m %s (error \"leaving by error\")))", body)
			case "interrupt":
				crit = fmt.Sprintf("(with-mutex-lock m (sim-emit \"enter\" %d) (sim-emit \"work\" %d) (setq n (+ n 1)) (sim-emit \"exit\" %d))", t, t, t)
			default:
				crit = fmt.Sprintf("(with-mutex-lock m %s)", body)
			}
			if t < c.Shorts {
				b.WriteString(" (run (+ 1 1))\n")
			}
			if c.Exits[t] == "interrupt" {
				// the interrupt may land anywhere in the loop; it ends the loop
				fmt.Fprintf(&b, " (run (progn (ignore-errors (sim-emit \"guard-on\" %d) (dotimes (i %d) %s) (sim-emit \"guard-off\" %d)) (channel-push fin %d)))\n", t, c.Iter, crit, t, t)
			} else {
				fmt.Fprintf(&b, " (run (progn (dotimes (i %d) %s) (channel-push fin %d)))\n", c.Iter, crit, t)
			}
		}
		extra := 0
		if c.Nested {
			// a routine started under the lock shares the starter's scope; it
			// must still wait for the mutex
			extra = 1
			if !c.GateFirst {
				b.WriteString(nestedForm)
			}
		}
		fmt.Fprintf(&b, " (dotimes (i %d) (channel-pop fin))\n (with-mutex-lock m (sim-emit \"final\" n)))\n", c.R+extra)
		return program{main: b.String()}
	case "s3":
		var setup strings.Builder
		switch c.Kind {
		case "clos":
			fmt.Fprintf(&setup, "(defclass box%s () (", sfx)
			for t := 0; t < c.R; t++ {
				if c.Acc {
					fmt.Fprintf(&setup, "(s%d :initform 0 :accessor box%s-s%d) ", t, sfx, t)
				} else {
					fmt.Fprintf(&setup, "(s%d :initform 0) ", t)
				}
			}
			setup.WriteString("))\n")
			fmt.Fprintf(&b, "(let ((o (make-instance 'box%s)) (fin (make-channel 64)))\n (set-synchronized o t)\n", sfx)
		case "struct":
			fmt.Fprintf(&setup, "(defstruct sbox%s ", sfx)
			for t := 0; t < c.R; t++ {
				fmt.Fprintf(&setup, "(s%d 0) ", t)
			}
			setup.WriteString(")\n")
			fmt.Fprintf(&b, "(let ((o (make-sbox%s)) (fin (make-channel 64)))\n (set-synchronized o t)\n", sfx)
		case "flavor":
			fmt.Fprintf(&setup, "(defflavor fbox%s (", sfx)
			for t := 0; t < c.R; t++ {
				fmt.Fprintf(&setup, "(s%d 0) ", t)
			}
			setup.WriteString(") () :gettable-instance-variables :settable-instance-variables)\n")
			fmt.Fprintf(&b, "(let ((o (make-instance 'fbox%s)) (fin (make-channel 64)))\n (set-synchronized o t)\n", sfx)
		default:
			b.WriteString("(let ((o (make-hash-table)) (m (make-mutex)) (fin (make-channel 64)))\n")
			for t := 0; t < c.R; t++ {
				fmt.Fprintf(&b, " (setf (gethash 'k%d o) 0)\n", t)
			}
		}
		for t := 0; t < c.R; t++ {
			other := (t + 1) % c.R
			var wr, rd string
			switch c.Kind {
			case "clos":
				wr = fmt.Sprintf("(setf (slot-value o 's%d) (+ %d i))", t, (t+1)*100)
				rd = fmt.Sprintf("(sim-emit \"read\" %d %d (slot-value o 's%d))", t, other, other)
				if c.Acc {
					wr = fmt.Sprintf("(setf (box%s-s%d o) (+ %d i))", sfx, t, (t+1)*100)
					rd = fmt.Sprintf("(sim-emit \"read\" %d %d (box%s-s%d o))", t, other, sfx, other)
				}
			case "struct":
				wr = fmt.Sprintf("(setf (sbox%s-s%d o) (+ %d i))", sfx, t, (t+1)*100)
				rd = fmt.Sprintf("(sim-emit \"read\" %d %d (sbox%s-s%d o))", t, other, sfx, other)
			case "flavor":
				wr = fmt.Sprintf("(send o :set-s%d (+ %d i))", t, (t+1)*100)
				rd = fmt.Sprintf("(sim-emit \"read\" %d %d (send o :s%d))", t, other, other)
			default:
				// every routine increments every key: lost updates would show
				wr = fmt.Sprintf("(with-mutex-lock m (setf (gethash 'k%d o) (+ 1 (gethash 'k%d o))))", other, other)
				rd = fmt.Sprintf("(with-mutex-lock m (setf (gethash 'k%d o) (+ 1 (gethash 'k%d o))))", t, t)
			}
			if c.Resync {
				wr = "(set-synchronized o t) " + wr
			}
			fmt.Fprintf(&b, " (run (progn (dotimes (i %d) %s %s) (channel-push fin %d)))\n", c.Iter, wr, rd, t)
		}
		fmt.Fprintf(&b, " (dotimes (i %d) (channel-pop fin))\n", c.R)
		for t := 0; t < c.R; t++ {
			switch c.Kind {
			case "clos":
				fmt.Fprintf(&b, " (sim-emit \"final\" %d (slot-value o 's%d))\n", t, t)
			case "struct":
				fmt.Fprintf(&b, " (sim-emit \"final\" %d (sbox%s-s%d o))\n", t, sfx, t)
			case "flavor":
				fmt.Fprintf(&b, " (sim-emit \"final\" %d (send o :s%d))\n", t, t)
			default:
				fmt.Fprintf(&b, " (sim-emit \"final\" %d (gethash 'k%d o))\n", t, t)
			}
		}
		b.WriteString(" nil)\n")
		return program{setup: setup.String(), main: b.String()}
	}
	if c.Scen == "s6" {
		// Routines create functions that refer to a global variable which is
		// only defined afterwards: the package's variable table is shared.
		b.WriteString("(let ((fch (make-channel 16)) (fs nil))\n")
		for t := 0; t < c.R; t++ {
			fmt.Fprintf(&b, " (run (channel-push fch (lambda (x) (+ x %d) *late%s*)))\n", t, sfx)
		}
		fmt.Fprintf(&b, " (dotimes (i %d) (setq fs (cons (channel-pop fch) fs)))\n (defvar *late%s* 7)\n (dolist (f fs) (sim-emit \"late\" (funcall f 0)))\n (setq *late%s* 8)\n (dolist (f fs) (sim-emit \"late\" (funcall f 0)))\n nil)\n", c.R, sfx, sfx)
		return program{main: b.String()}
	}
	if c.Scen == "s7" {
		// Several routines define methods of ONE generic function at the same
		// time: routine t owns one qualifier for the specializer fixnum and
		// defines it Iter times (versions 0..Iter-1). Definitions with
		// different qualifiers commute, so after all routines have finished a
		// call must run every routine's last version.
		quals := []string{"", ":before", ":after", ":around"}
		var setup strings.Builder
		fmt.Fprintf(&setup, "(defgeneric sd%s (a))\n(defmethod sd%s ((a t)) (sim-emit \"ran\" 9 0) 'base)\n", sfx, sfx)
		b.WriteString("(let ((fin (make-channel 64)))\n")
		for t := 0; t < c.R; t++ {
			var defs strings.Builder
			for v := 0; v < c.Iter; v++ {
				body := fmt.Sprintf("(sim-emit \"ran\" %d %d)", t, v)
				if quals[t] == ":around" {
					body += " (call-next-method)"
				}
				fmt.Fprintf(&defs, "(defmethod sd%s %s ((a fixnum)) %s) (sim-emit \"defd\" %d %d) ", sfx, quals[t], body, t, v)
			}
			fmt.Fprintf(&b, " (run (progn %s(channel-push fin %d)))\n", defs.String(), t)
		}
		fmt.Fprintf(&b, " (dotimes (i %d) (channel-pop fin))\n (sim-emit \"quiet\") (sd%s 1) (sim-emit \"end\") nil)\n", c.R, sfx)
		return program{setup: setup.String(), main: b.String()}
	}
	if c.Scen == "s8" {
		// Nested fork/join inside a closure: a closure over two counters
		// starts two routines with run, each updating one of the closure's
		// variables, and joins them over a channel; the closure itself is
		// called from a routine started by run. The scope chain that run has
		// to make safe has several parents here (call scope -> caller and
		// closure scope).
		var setup strings.Builder
		lockA, lockB := "%s", "%s"
		vars := "(evens 0) (odds 0)"
		upA, upB := "(setq evens (+ evens 1))", "(setq odds (+ odds 1))"
		res := "(list evens odds)"
		if c.Kind == "shared-locked" {
			vars = "(both 0) (m (make-mutex))"
			lockA, lockB = "(with-mutex-lock m %s)", "(with-mutex-lock m %s)"
			upA, upB = "(setq both (+ both 1))", "(setq both (+ both 1))"
			res = "(list both both)"
		}
		fmt.Fprintf(&setup, "(defun make-splitter%s () (let (%s) (lambda (n) (let ((done (make-channel 2))) (run (progn (dotimes (i n) %s) (channel-push done 'a))) (run (progn (dotimes (i n) %s) (channel-push done 'b))) (channel-pop done) (channel-pop done) %s))))\n",
			sfx, vars, fmt.Sprintf(lockA, upA), fmt.Sprintf(lockB, upB), res)
		b.WriteString("(let ((fin (make-channel 64)))\n")
		for t := 0; t < c.R; t++ {
			if c.Kind == "made-in-routine" {
				fmt.Fprintf(&b, " (run (let ((sp (make-splitter%s))) (sim-emit \"split\" %d (funcall sp %d)) (sim-emit \"split\" %d (funcall sp %d)) (channel-push fin %d)))\n", sfx, t, c.Iter, t, c.Iter, t)
			} else {
				fmt.Fprintf(&b, " (let ((sp (make-splitter%s))) (run (progn (sim-emit \"split\" %d (funcall sp %d)) (sim-emit \"split\" %d (funcall sp %d)) (channel-push fin %d))))\n", sfx, t, c.Iter, t, c.Iter, t)
			}
		}
		fmt.Fprintf(&b, " (dotimes (i %d) (channel-pop fin)) nil)\n", c.R)
		return program{setup: setup.String(), main: b.String()}
	}
	if c.Scen == "s9" {
		vals := []string{"1", `"s"`, "'sym", "1.5"}
		types := []string{"fixnum", "string", "symbol", "float"}
		var setup strings.Builder
		fmt.Fprintf(&setup, "(defgeneric sk%s (a))\n(defmethod sk%s :around ((a t)) (list 'around (call-next-method)))\n", sfx, sfx)
		for _, ty := range types {
			fmt.Fprintf(&setup, "(defmethod sk%s ((a %s)) '%s)\n", sfx, ty, ty)
		}
		if c.Nested {
			fmt.Fprintf(&setup, "(defmethod sk%s :around ((a string)) (list 'inner (call-next-method)))\n", sfx)
		}
		fmt.Fprintf(&b, "(let ((fin (make-channel 64)) (vals (list %s)))\n", strings.Join(vals, " "))
		body := func(me string) string {
			return fmt.Sprintf("(progn (dotimes (i %d) (sim-emit \"kind\" %s (sk%s (nth %s vals)))) (channel-push fin %s))", c.Iter, me, sfx, me, me)
		}
		switch c.Kind {
		case "straight":
			for t := 0; t < c.R; t++ {
				fmt.Fprintf(&b, " (let ((me %d)) (run %s))\n", t, body("me"))
			}
		default:
			var ids []string
			for t := 0; t < c.R; t++ {
				ids = append(ids, fmt.Sprint(t))
			}
			head := fmt.Sprintf("dolist (tv '(%s))", strings.Join(ids, " "))
			if c.Kind == "dovector" {
				head = fmt.Sprintf("dovector (tv (vector %s))", strings.Join(ids, " "))
			}
			// the routine keeps looking variables up through the loop's
			// scope while the loop goes on rebinding its variable
			fmt.Fprintf(&b, " (%s (let ((me tv)) (run %s)))\n", head, body("me"))
		}
		fmt.Fprintf(&b, " (dotimes (i %d) (channel-pop fin)) nil)\n", c.R)
		return program{setup: setup.String(), main: b.String()}
	}
	if c.Scen == "s5" {
		// One routine redefines a method of a generic function that the
		// other routines are calling: the generic's method table and
		// effective-method cache are interpreter tables shared by routines.
		var setup strings.Builder
		fmt.Fprintf(&setup, "(defgeneric sg%s (a))\n(defmethod sg%s ((a t)) 'base)\n(defmethod sg%s ((a string)) 'str)\n", sfx, sfx, sfx)
		if c.NoBase {
			setup.Reset()
			fmt.Fprintf(&setup, "(defgeneric sg%s (a))\n(defmethod sg%s ((a string)) 'str)\n", sfx, sfx)
		}
		b.WriteString("(let ((fin (make-channel 64)))\n")
		fmt.Fprintf(&b, " (run (progn (defmethod sg%s ((a fixnum)) 'new) (sim-emit \"defined\") (channel-push fin 0)))\n", sfx)
		for t := 0; t < c.R; t++ {
			call := fmt.Sprintf("(sg%s 1)", sfx)
			if c.NoBase {
				// no applicable method yet: reported as base (the primary value of
				// ignore-errors is taken by passing it through an ordinary function)
				call = fmt.Sprintf("(or (car (list (ignore-errors (sg%s 1)))) 'base)", sfx)
			}
			fmt.Fprintf(&b, " (run (progn (dotimes (i %d) (sim-emit \"call\" %d %s)) (channel-push fin %d)))\n", c.Iter, t, call, t+1)
		}
		fmt.Fprintf(&b, " (dotimes (i %d) (channel-pop fin))\n (sim-emit \"after\" (sg%s 1) (sg%s 2) (sg%s \"x\")) nil)\n", c.R+1, sfx, sfx, sfx)
		return program{setup: setup.String(), main: b.String()}
	}
	// s4: routines that share nothing but the interpreter's own tables
	var pr program
	var setup strings.Builder
	fmt.Fprintf(&setup, "(defun shared%s (x) (let ((y (* x 2))) (list x y (+ x y))))\n", sfx)
	fmt.Fprintf(&setup, "(defun sharedexit%s (x) (block b (unwind-protect (dotimes (i 2) (when (= i 1) (return-from b (* x 10)))) (sim-emit \"c\" x))))\n", sfx)
	b.WriteString("(let ((fin (make-channel 64)))\n")
	for t, w := range c.Work {
		var body string
		switch w {
		case "defvar":
			body = fmt.Sprintf("(progn (defvar *v%d%s* %d) (setq *v%d%s* (+ *v%d%s* 1)) (defparameter *p%d%s* (list *v%d%s* 'x)) (sim-emit \"r\" %d *v%d%s* *p%d%s*))",
				t, sfx, t*10, t, sfx, t, sfx, t, sfx, t, sfx, t, t, sfx, t, sfx)
		case "defun":
			body = fmt.Sprintf("(progn (defun f%d%s (a b) (+ (* a %d) b)) (sim-emit \"r\" %d (f%d%s 2 3) (f%d%s 4 5)) (defun f%d%s (a b) (- a b)) (sim-emit \"r\" %d (f%d%s 9 %d)))",
				t, sfx, t+2, t, t, sfx, t, sfx, t, sfx, t, t, sfx, t)
		case "generic":
			body = fmt.Sprintf("(progn (defgeneric g%d%s (a)) (defmethod g%d%s ((a fixnum)) (list 'fix a)) (defmethod g%d%s ((a string)) (list 'str a)) (defmethod g%d%s :before ((a fixnum)) (sim-emit \"before\" %d a)) (sim-emit \"r\" %d (g%d%s %d) (g%d%s \"s%d\")))",
				t, sfx, t, sfx, t, sfx, t, sfx, t, t, t, sfx, t, t, sfx, t)
		case "print":
			body = fmt.Sprintf("(sim-emit \"r\" %d (write-to-string '(a%d (b \"c%d\" (d e f) #(1 2 %d)) 1.5 %d) :pretty t :right-margin 20) (write-to-string '(x%d (y . z) \"q\") :pretty nil) (format nil \"~a-~s-~d\" 'k%d \"s\" %d))",
				t, t, t, t, t, t, t, t)
		case "printobj":
			// objects that print themselves, under let-bound printer
			// variables, next to plain numbers printed with the defaults
			// (seeded change C17-m1: settings handed to such objects through
			// the shared default printer)
			body = fmt.Sprintf("(let ((ht (make-hash-table)) (ch (make-channel 1))) (dotimes (i 3) (let ((*print-base* %d) (*print-case* :upcase)) (princ-to-string ht) (princ-to-string ch)) (sim-emit \"r\" %d (princ-to-string 255) (format nil \"~a ~s\" 254 'sym%d) (let ((*print-base* %d)) (princ-to-string 255)))))",
				[]int{16, 8, 2}[t%3], t, t, []int{16, 8, 2}[t%3])
		case "defclass":
			body = fmt.Sprintf("(progn (defclass k%d%s () ((a :initform %d :accessor k%d%s-a))) (let ((o (make-instance 'k%d%s))) (setf (k%d%s-a o) (+ 1 (k%d%s-a o))) (sim-emit \"r\" %d (k%d%s-a o) (slot-value o 'a))))",
				t, sfx, t*7, t, sfx, t, sfx, t, sfx, t, sfx, t, t, sfx)
		case "defflavor":
			body = fmt.Sprintf("(progn (defflavor fl%d%s ((x %d)) () :gettable-instance-variables :settable-instance-variables) (let ((o (make-instance 'fl%d%s))) (send o :set-x (+ 2 (send o :x))) (sim-emit \"r\" %d (send o :x))))",
				t, sfx, t*5, t, sfx, t)
		case "defstruct":
			body = fmt.Sprintf("(progn (defstruct st%d%s (a 1) (b %d)) (let ((o (make-st%d%s :a 5))) (setf (st%d%s-b o) (+ 1 (st%d%s-b o))) (sim-emit \"r\" %d (st%d%s-a o) (st%d%s-b o))))",
				t, sfx, t, t, sfx, t, sfx, t, sfx, t, t, sfx, t, sfx)
		case "defpackage":
			body = fmt.Sprintf("(progn (defpackage \"pk%d%s\") (intern \"ZZ%d\" \"pk%d%s\") (sim-emit \"r\" %d (package-name (find-package \"pk%d%s\")) (if (find-symbol \"ZZ%d\" \"pk%d%s\") 'found 'missing) (delete-package \"pk%d%s\") (find-package \"pk%d%s\")))",
				t, sfx, t, t, sfx, t, t, sfx, t, t, sfx, t, sfx, t, sfx)
		case "defconstant":
			body = fmt.Sprintf("(progn (defconstant +c%d%s+ %d) (sim-emit \"r\" %d +c%d%s+ (constantp '+c%d%s+) (boundp '+c%d%s+)))", t, sfx, t+30, t, t, sfx, t, sfx, t, sfx)
		case "unbind":
			body = fmt.Sprintf("(progn (defvar *u%d%s* 1) (defun u%d%s () %d) (let ((r (list (boundp '*u%d%s*) (fboundp 'u%d%s) (u%d%s)))) (makunbound '*u%d%s*) (fmakunbound 'u%d%s) (sim-emit \"r\" %d r (boundp '*u%d%s*) (fboundp 'u%d%s))))",
				t, sfx, t, sfx, t, t, sfx, t, sfx, t, sfx, t, sfx, t, sfx, t, t, sfx, t, sfx)
		case "apropos":
			body = fmt.Sprintf("(progn (defvar *apx%d%s* 1) (defun apx%d%s-f () 1) (sim-emit \"r\" %d (apropos-list \"apx%d%s\")))", t, sfx, t, sfx, t, t, sfx)
		case "describe":
			body = fmt.Sprintf("(progn (defvar *dsc%d%s* %d \"doc of dsc\") (sim-emit \"r\" %d (with-output-to-string (s) (describe '*dsc%d%s* s)) (with-output-to-string (s) (describe 'car s))))", t, sfx, t, t, t, sfx)
		case "allsyms":
			body = fmt.Sprintf("(progn (defvar *als%d%s* 1) (let ((n 0) (m 0)) (do-all-symbols (s) (setq m (+ m 1)) (when (eq s '*als%d%s*) (setq n (+ n 1)))) (sim-emit \"r\" %d n (> m 100))))", t, sfx, t, sfx, t)
		case "unintern":
			body = fmt.Sprintf("(progn (defvar *un%d%s* 1) (sim-emit \"r\" %d (boundp '*un%d%s*) (unintern '*un%d%s*) (boundp '*un%d%s*)))", t, sfx, t, t, sfx, t, sfx, t, sfx)
		case "readbase":
			// the same tokens read under let-bound reader variables that
			// differ from routine to routine (seeded change C02-n1: a process
			// wide cache of resolved tokens tagged with one set of reader
			// variables)
			body = fmt.Sprintf("(let ((*read-base* %d) (*read-default-float-format* '%s)) (dotimes (k 4) (sim-emit \"r\" %d (let ((v (read-from-string \"(f0d2e 10 ff 17 abc 1.5 1e2 z9)\"))) (list v (mapcar 'type-of v))))))",
				[]int{16, 10, 8, 36}[t%4], []string{"double-float", "single-float"}[t%2], t)
		case "lookup":
			// only looks things up, while others define
			spell := []string{":cl", "\"CL\"", "\"common-lisp\"", "\"Common-Lisp\"", ":gi", "\"cl-user\"", "\"Common-Lisp-User\""}
			body = fmt.Sprintf("(dotimes (k 3) (sim-emit \"r\" %d (fboundp 'car) (boundp '*print-base*) (class-name (find-class 'fixnum)) (funcall 'shared%s k) (package-name (find-package %s)) (package-name (find-package %s)) (read-from-string \"cl:car\") (symbol-value '*print-radix*)))",
				t, sfx, spell[t%len(spell)], spell[(t+3)%len(spell)])
		case "exit":
			// several routines run the same compiled return-from at once
			body = fmt.Sprintf("(dotimes (k 3) (sim-emit \"r\" %d (sharedexit%s %d)))", t, sfx, t+1)
		default:
			body = fmt.Sprintf("(sim-emit \"r\" %d (shared%s %d) (funcall (lambda (q) (shared%s (+ q 1))) %d) (mapcar (lambda (z) (* z %d)) '(1 2 3)))", t, sfx, t, sfx, t, t+1)
		}
		pr.solo = append(pr.solo, body)
		fmt.Fprintf(&b, " (run (progn %s (channel-push fin %d)))\n", body, t)
	}
	fmt.Fprintf(&b, " (dotimes (i %d) (channel-pop fin)) nil)\n", len(c.Work))
	pr.setup = setup.String()
	pr.main = b.String()
	return pr
}

// streamObj is a Lisp input stream that delivers one chunk of text per read.
type streamObj struct {
	chunks []string
}

func (o *streamObj) Read(p []byte) (int, error) {
	if len(o.chunks) == 0 {
		return 0, io.EOF
	}
	n := copy(p, o.chunks[0])
	o.chunks = o.chunks[1:]
	return n, nil
}
func (o *streamObj) String() string               { return "#<sim-stream>" }
func (o *streamObj) Append(b []byte) []byte       { return append(b, "#<sim-stream>"...) }
func (o *streamObj) Simplify() any                { return "#<sim-stream>" }
func (o *streamObj) Equal(other slip.Object) bool { return o == other }
func (o *streamObj) Hierarchy() []slip.Symbol {
	return []slip.Symbol{slip.InputStreamSymbol, slip.StreamSymbol, slip.TrueSymbol}
}
func (o *streamObj) Eval(s *slip.Scope, depth int) slip.Object { return o }
func (o *streamObj) StreamType() slip.Symbol                   { return slip.InputStreamSymbol }
func (o *streamObj) IsOpen() bool                              { return true }

// ---- execution ----

type mark struct {
	seq  int
	task int
	text string
	at   time.Duration
}

func viol(class, f string, a ...any) *harness.Violation {
	return &harness.Violation{Class: class, Detail: fmt.Sprintf(f, a...)}
}

var warm sync.Once

func warmUp() {
	// bring lazily initialised interpreter state into its steady state (see
	// the C10 engine); done once per process, outside any simulation
	c := Case{Scen: "s4", Work: []string{"defvar", "defun", "generic", "print", "lambda"}}
	sfx := lispsim.Suffix()
	p := c.program(sfx)
	s := slip.NewScope()
	lispsim.Eval(lispsim.Read(p.setup), s)
	for _, b := range p.solo {
		lispsim.Eval(lispsim.Read(b), s)
	}
	lispsim.Eval(lispsim.Read(`(let ((c (make-channel 1)) (m (make-mutex)) (h (make-hash-table))) (channel-push c 1) (channel-pop c) (with-mutex-lock m (setf (gethash 'a h) 1)) (ignore-errors (error "x")) (block b (return-from b 1)))`), s)
}

type runOut struct {
	res     sched.Result
	s       *sched.Sched
	marks   []mark
	mainRes lispsim.Result
	tp      *tape.Tape
}

func (c *Case) exec(main string, setup string, sfx string, solo bool) runOut {
	scope := slip.NewScope()
	if c.Scen == "s1" && c.ReadPush {
		for p := 0; p < c.P; p++ {
			var chunks []string
			for i := 0; i < c.N; i += c.Chunk {
				var sb strings.Builder
				for j := i; j < i+c.Chunk && j < c.N; j++ {
					fmt.Fprintf(&sb, "%d ", (p+1)*1000+j)
				}
				chunks = append(chunks, sb.String())
			}
			scope.Let(slip.Symbol(fmt.Sprintf("rps%d", p)), &streamObj{chunks: chunks})
		}
	}
	if setup != "" {
		if r := lispsim.Eval(lispsim.Read(setup), scope); r.Cond != "" {
			panic(fmt.Sprintf("c17: setup failed: %s %s", r.Cond, r.Msg))
		}
	}
	code := lispsim.Read(main)
	simrt.Procs = c.Procs
	defer func() { simrt.Procs = 0 }()
	var tp *tape.Tape
	if c.Replay || solo {
		tp = tape.Replay(c.Tape)
		if solo {
			tp = tape.Replay(nil)
		}
	} else {
		tp = tape.New(c.TapeSeed)
	}
	size := c.P*c.N*(1+len(c.Cons)) + c.R*c.Iter + 3*len(c.Work) + 4
	cfg := sched.Config{HoldPct: c.HoldPct, Policy: c.Policy, SwitchPct: c.SwitchPct, YieldPct: c.YieldPct, PCTDepth: c.PCTDepth,
		PCTHorizon: 400 * size, TimeJumpPct: c.TimeJumpPct, Salt: c.Salt, Budget: 4000*size + 60000}
	var out runOut
	intTask, intDone, intCalls, guarded := -1, false, 0, false
	if c.Scen == "s2" && !solo {
		// The interrupt is delivered the way swank delivers it: through
		// Scope.InterruptCheck, at the IntAt-th time the designated routine
		// (the first one whose exit kind is "interrupt") consults it. That
		// routine's loop is wrapped in ignore-errors, so it survives.
		for t, ex := range c.Exits {
			if ex == "interrupt" {
				intTask = t + 1 // routines are tasks 1..R in creation order
				break
			}
		}
		scope.InterruptCheck = func() {
			if out.s == nil || out.s.CurID() != intTask || intDone || !guarded {
				return
			}
			intCalls++
			if intCalls == c.IntAt {
				intDone = true
				out.marks = append(out.marks, mark{seq: out.s.Seq(), task: intTask, text: fmt.Sprintf("interrupt %d", intTask), at: out.s.Elapsed()})
				out.s.Emit("interrupt", fmt.Sprint(intTask))
				panic(&slip.Panic{Message: "Keyboard interrupt"})
			}
		}
	}
	s := sched.New(cfg, tp)
	if tf := os.Getenv("C17_TRACE"); tf != "" && !solo {
		if f, err := os.OpenFile(tf, os.O_CREATE|os.O_WRONLY|os.O_APPEND, 0o644); err == nil {
			fmt.Fprintf(f, "=== %s\n", c.Scen)
			s.Trace = f
			defer f.Close()
		}
	}
	out.s = s
	out.tp = tp
	lw := &lispsim.World{S: s, Scrub: sfx, OnEmit: func(task int, text string) {
		out.marks = append(out.marks, mark{seq: s.Seq(), task: task, text: text, at: s.Elapsed()})
		if task == intTask {
			if strings.HasPrefix(text, "guard-on") {
				guarded = true // from here on ignore-errors catches the interrupt
			} else if strings.HasPrefix(text, "guard-off") {
				guarded = false
			}
		}
	}}
	lispsim.Begin(lw)
	out.res = s.Run(func() { out.mainRes = lispsim.Eval(code, scope) })
	lispsim.End()
	return out
}

func fields(text string) []string { return strings.Fields(text) }

func atoi(s string) int { n, _ := strconv.Atoi(s); return n }

func (e *engine) Execute(raw json.RawMessage) (vd harness.Verdict) {
	warm.Do(warmUp)
	slip.VerifResetPrinter() // lazily grown process-global printer state: the same for every case
	var c Case
	if err := json.Unmarshal(raw, &c); err != nil {
		panic(err)
	}
	if c.Tries > 0 && !c.Replay {
		pols := []string{sched.PolicyRandom, sched.PolicyRR, sched.PolicyPCT, sched.PolicyRandom}
		for i := 0; i < c.Tries; i++ {
			cc := c
			cc.Tries = 0
			cc.TapeSeed = tape.Mix(c.TapeSeed, uint64(i))
			cc.Salt = tape.Mix(c.Salt, uint64(i))
			cc.Policy = pols[i%len(pols)]
			cc.SwitchPct = []int{50, 90, 20}[i%3]
			cc.YieldPct = []int{100, 25}[i%2]
			cc.PCTDepth = 1 + i%3
			b, _ := json.Marshal(cc)
			v := e.Execute(b)
			vd.Evals += v.Evals
			if v.V != nil && (c.Want == "" || v.V.Class == c.Want) {
				v.Evals = vd.Evals
				return v
			}
		}
		return vd
	}
	vd.Evals = 1
	vd.Faults = map[string]int{}
	vd.Probes = map[string]int{}
	sfx := lispsim.Suffix()
	p := c.program(sfx)
	out := c.exec(p.main, p.setup, sfx, false)
	s := out.s
	vd.Steps = s.Stats.Steps
	vd.SimTime = out.res.SimDur
	vd.Faults["context_switches"] = s.Stats.Switches
	vd.Faults["clock_jumps"] = s.Stats.TimeJumps
	vd.Probes["scenario_"+c.Scen]++
	vd.Probes["forced_switches"] = s.Stats.ForcedSwitches
	vd.Probes["lock_contended"] = s.Stats.LockContended
	vd.Probes["select_multi_ready"] = s.Stats.SelectMulti
	vd.Probes["timer_fires"] = s.Stats.TimerFires
	vd.Probes["blocks"] = s.Stats.Blocks
	vd.Extra = map[string]int{"switch_pairs": len(s.SwitchPairs()), "max_runnable": s.Stats.MaxRunnable}
	pin := func(v *harness.Violation) {
		pc := c
		pc.Tape = append([]uint32{}, out.tp.Rec...)
		pc.Replay = true
		vd.Pinned, _ = json.Marshal(pc)
		vd.V = v
	}
	for _, m := range out.marks {
		if strings.HasPrefix(m.text, "interrupt") {
			vd.Faults["interrupt"]++
		}
	}
	for _, ev := range s.Events {
		_ = ev
	}
	for _, t := range out.res.Panics {
		cl, msg := lispsim.ConditionClass(t.PanicVal)
		pin(viol("routine-died", "%s: routine (task %d) died with %s: %s", c.Scen, t.ID, cl, msg))
		return
	}
	if out.res.Outcome == sched.Deadlock {
		pin(viol("deadlock", "%s: no routine can run any more; blocked: %v", c.Scen, out.res.Stuck))
		return
	}
	if out.res.Outcome == sched.Budget {
		pin(viol("no-progress", "%s: step budget exhausted with routines still alive: %v", c.Scen, out.res.Stuck))
		return
	}
	if len(s.Misuse) > 0 {
		pin(viol("runtime-misuse", "%s: %v", c.Scen, s.Misuse))
		return
	}
	if os.Getenv("VERIF_RACE_LIST") != "" {
		for _, r := range s.MapRaces {
			fmt.Fprintf(os.Stderr, "RACE %s %s\n", c.Scen, r)
		}
	} else if m, races := sched.UnknownRaces(s.MapRaces, c.KnownRaces); m != "" {
		pin(viol("map-race:"+m, "%s: two routines access the shared Go map or slice %s with nothing ordering them - on the real runtime a data race (for a map the process can end with \"concurrent map writes\" or \"concurrent map read and map write\") (kind, site of the open write window, site of the other access): %v", c.Scen, m, races))
		return
	}
	if out.mainRes.Cond != "" {
		pin(viol("main-failed", "%s: the main routine ended with %s: %s", c.Scen, out.mainRes.Cond, out.mainRes.Msg))
		return
	}
	var v *harness.Violation
	switch c.Scen {
	case "s1":
		v = c.judgeS1(out)
	case "s2":
		v = c.judgeS2(out)
	case "s3":
		v = c.judgeS3(out)
	case "s4":
		v = c.judgeS4(out, p, sfx, &vd)
	case "s5":
		v = c.judgeS5(out)
	case "s9":
		v = c.judgeS9(out)
	case "s7":
		v = c.judgeS7(out)
	case "s8":
		v = c.judgeS8(out)
	case "s10":
		v = c.judgeS10(out)
	case "s6":
		n := 0
		for _, m := range out.marks {
			if f := fields(m.text); f[0] == "late" {
				n++
				want := "7"
				if n > c.R {
					want = "8"
				}
				if len(f) != 2 || f[1] != want {
					v = viol("stale-variable", "a function created by a routine before the global was defined returned %s after (defvar/setq ... %s", strings.Join(f[1:], " "), want)
				}
			}
		}
		if v == nil && n != 2*c.R {
			v = viol("harness", "expected %d reports, got %d", 2*c.R, n)
		}
	}
	if v != nil {
		pin(v)
		return
	}
	if s.Stats.Switches > 0 {
		vd.Hashes = []uint64{s.Hash()}
	}
	return
}

func (c *Case) judgeS1(out runOut) *harness.Violation {
	got := map[int]int{}
	perCons := map[int][]int{}
	selStart := map[int]time.Duration{}
	ticks := map[int]int{}
	closedSeen := false
	done := map[int]bool{}
	nils := 0
	for _, m := range out.marks {
		f := fields(m.text)
		switch f[0] {
		case "got":
			if f[2] == "nil" {
				nils++
				continue
			}
			k, x := atoi(f[1]), atoi(f[2])
			got[x]++
			perCons[k] = append(perCons[k], x)
		case "tkstart":
			selStart[atoi(f[1])] = m.at
		case "tick":
			k := atoi(f[1])
			ticks[k]++
			if min := time.Duration(ticks[k]*c.TimeoutMs) * time.Millisecond; m.at-selStart[k] < min {
				return viol("tick-early", "consumer %d: tick %d of a %dms ticker arrived %v after the ticker was made", k, ticks[k], c.TimeoutMs, m.at-selStart[k])
			}
		case "closed":
			closedSeen = true
		case "cdone":
			done[atoi(f[1])] = true
		}
	}
	if !closedSeen {
		return viol("not-closed", "the closer never closed the channel although the run completed")
	}
	for p := 0; p < c.P; p++ {
		for i := 0; i < c.N; i++ {
			x := (p+1)*1000 + i
			if got[x] != 1 {
				return viol("conservation", "item %d pushed by producer %d was received %d times (P=%d N=%d cap=%d consumers=%v)", x, p, got[x], c.P, c.N, c.Cap, c.Cons)
			}
			delete(got, x)
		}
	}
	for x, n := range got {
		return viol("conservation", "item %d was received %d times but never pushed", x, n)
	}
	wantNils := 0
	if c.Nils {
		wantNils = c.P * (c.N / 2)
	}
	if nils != wantNils {
		return viol("conservation", "%d nil items were pushed (nil is an ordinary item) but %d were received (P=%d N=%d cap=%d consumers=%v)", wantNils, nils, c.P, c.N, c.Cap, c.Cons)
	}
	for k, xs := range perCons {
		if k < len(c.Cons) && c.Cons[k] == "select-spawn" {
			continue // the reporting routines run in any order
		}
		last := map[int]int{}
		for _, x := range xs {
			p := x / 1000
			if l, ok := last[p]; ok && x <= l {
				return viol("order", "consumer %d received %d after %d from the same producer (cap=%d consumers=%v)", k, x, l, c.Cap, c.Cons)
			}
			last[p] = x
		}
	}
	if len(c.Cons) == 1 {
		// single consumer: also the global per-producer order
	}
	for k := range c.Cons {
		if !done[k] {
			return viol("consumer-stuck", "consumer %d (%s) did not finish after the channel was closed", k, c.Cons[k])
		}
	}
	return nil
}

// judgeS10: worker k receives exactly the items pushed on inbox k, in order,
// and ends when its inbox is closed.
func (c *Case) judgeS10(out runOut) *harness.Violation {
	per := map[int][]int{}
	done := map[int]bool{}
	for _, m := range out.marks {
		f := fields(m.text)
		switch f[0] {
		case "got":
			per[atoi(f[1])] = append(per[atoi(f[1])], atoi(f[2]))
		case "cdone":
			done[atoi(f[1])] = true
		}
	}
	for k := 0; k < c.R; k++ {
		var want []int
		for i := 0; i < c.N; i++ {
			want = append(want, (k+1)*1000+i)
		}
		if fmt.Sprint(per[k]) != fmt.Sprint(want) {
			return viol("conservation", "worker %d, running the same function as the others with an inbox of its own, received %v; %v was pushed on its inbox (workers=%d cap=%d %s)", k, per[k], want, c.R, c.Cap, c.Kind)
		}
		if !done[k] {
			return viol("consumer-stuck", "worker %d did not finish after its inbox was closed", k)
		}
	}
	return nil
}

func (c *Case) judgeS2(out runOut) *harness.Violation {
	inside := -1
	enters := 0
	exits := 0
	final := -1
	for _, m := range out.marks {
		f := fields(m.text)
		switch f[0] {
		case "enter":
			t := atoi(f[1])
			if inside != -1 {
				return viol("mutual-exclusion", "routine %d entered the critical section while routine %d was inside it", t, inside)
			}
			inside = t
			enters++
		case "exit":
			t := atoi(f[1])
			if inside != t {
				return viol("mutual-exclusion", "routine %d left the critical section but %d was recorded inside", t, inside)
			}
			inside = -1
			exits++
		case "interrupt":
			// the interrupted routine leaves its critical section (if it
			// was in one) without an exit marker
			if inside == atoi(f[1])-1 {
				inside = -1
			}
			_ = exits
		case "final":
			final = atoi(f[1])
		}
	}
	if final < 0 {
		return viol("mutex-not-free", "the main routine never got the mutex after all routines finished")
	}
	// every completed increment is counted: exits <= final <= enters
	if final < exits || final > enters {
		return viol("lost-update", "counter is %d after %d entered and %d completed critical sections", final, enters, exits)
	}
	want := c.R * c.Iter
	if c.Nested {
		want += 2
	}
	interrupted := false
	for _, m := range out.marks {
		if strings.HasPrefix(m.text, "interrupt") {
			interrupted = true
		}
	}
	if enters != want && !(interrupted && enters < want) {
		return viol("lost-iteration", "%d critical sections were entered, expected %d", enters, want)
	}
	return nil
}

func (c *Case) judgeS3(out runOut) *harness.Violation {
	finals := map[int]string{}
	for _, m := range out.marks {
		f := fields(m.text)
		switch f[0] {
		case "read":
			if c.Kind == "hash" {
				continue
			}
			t, o, v := atoi(f[1]), atoi(f[2]), atoi(f[3])
			lo, hi := (o+1)*100, (o+1)*100+c.Iter-1
			if v != 0 && (v < lo || v > hi) {
				return viol("invented-value", "routine %d read %d from slot s%d, which only ever holds 0 or %d..%d", t, v, o, lo, hi)
			}
		case "final":
			finals[atoi(f[1])] = f[2]
		}
	}
	for t := 0; t < c.R; t++ {
		want := strconv.Itoa((t+1)*100 + c.Iter - 1)
		if c.Kind == "hash" {
			want = strconv.Itoa(2 * c.Iter) // its own increments plus its neighbour's
			if c.R == 1 {
				want = strconv.Itoa(2 * c.Iter)
			}
		}
		if finals[t] != want {
			return viol("lost-update", "%s: final value of slot/key %d is %s, expected %s (R=%d iter=%d)", c.Kind, t, finals[t], want, c.R, c.Iter)
		}
	}
	return nil
}

// judgeS7: after all defining routines have finished, one call runs the last
// version of every routine's method (and not the shadowed base primary unless
// no routine owns the primary - routine 0 always does).
func (c *Case) judgeS7(out runOut) *harness.Violation {
	quiet := false
	ran := map[int]string{}
	var order []string
	for _, m := range out.marks {
		f := fields(m.text)
		switch f[0] {
		case "quiet":
			quiet = true
		case "ran":
			if quiet && m.task == 0 {
				ran[atoi(f[1])] = f[2]
				order = append(order, f[1])
			}
		}
	}
	if !quiet {
		return viol("harness", "the defining routines never finished")
	}
	last := fmt.Sprint(c.Iter - 1)
	for t := 0; t < c.R; t++ {
		v, ok := ran[t]
		if !ok {
			return viol("lost-definition", "routine %d defined its %s method %d time(s) and was told so, but a call after all routines finished does not run it (ran: routines %v)", t, []string{"primary", ":before", ":after", ":around"}[t], c.Iter, order)
		}
		if v != last {
			return viol("lost-definition", "a call after all routines finished runs version %s of routine %d's method, the last one defined is %s", v, t, last)
		}
	}
	if _, base := ran[9]; base {
		return viol("lost-definition", "the base primary ran although routine 0 defined a more specific primary (ran: routines %v)", order)
	}
	return nil
}

// judgeS8: every call of a splitter returns its two counters advanced by n.
func (c *Case) judgeS8(out runOut) *harness.Violation {
	calls := map[int]int{}
	for _, m := range out.marks {
		f := fields(m.text)
		if f[0] != "split" {
			continue
		}
		t := atoi(f[1])
		calls[t]++
		want := calls[t] * c.Iter
		if c.Kind == "shared-locked" {
			want *= 2
		}
		got := strings.Join(f[2:], " ")
		if exp := fmt.Sprintf("(%d %d)", want, want); got != exp {
			return viol("lost-update", "job %d, call %d of its splitter closure returned %s, expected %s (two routines started inside the closure each add %d)", t, calls[t], got, exp, c.Iter)
		}
	}
	for t := 0; t < c.R; t++ {
		if calls[t] != 2 {
			return viol("harness", "job %d reported %d calls, expected 2", t, calls[t])
		}
	}
	return nil
}

// judgeS9: every call of the shared generic function ran the :around
// method(s) and the primary method of the caller's own argument class.
func (c *Case) judgeS9(out runOut) *harness.Violation {
	types := []string{"fixnum", "string", "symbol", "float"}
	calls := map[int]int{}
	for _, m := range out.marks {
		f := fields(m.text)
		if f[0] != "kind" {
			continue
		}
		t := atoi(f[1])
		calls[t]++
		want := fmt.Sprintf("(around %s)", types[t])
		if c.Nested && types[t] == "string" {
			want = "(inner (around string))"
		}
		if got := strings.Join(f[2:], " "); got != want {
			return viol("wrong-dispatch", "routine %d called the generic function with a %s and got %s, expected %s: no sequential execution gives that", t, types[t], got, want)
		}
	}
	for t := 0; t < c.R; t++ {
		if calls[t] != c.Iter {
			return viol("lost-call", "routine %d reported %d of its %d calls", t, calls[t], c.Iter)
		}
	}
	return nil
}

func (c *Case) judgeS5(out runOut) *harness.Violation {
	defined := false
	sawNew := map[int]bool{}
	for _, m := range out.marks {
		f := fields(m.text)
		switch f[0] {
		case "defined":
			defined = true
		case "call":
			t, v := atoi(f[1]), f[2]
			switch v {
			case "new":
				sawNew[t] = true
			case "base":
				if sawNew[t] {
					return viol("stale-dispatch", "routine %d got the old method after it had already got the new one", t)
				}
			default:
				return viol("wrong-dispatch", "routine %d: (sg 1) returned %s", t, v)
			}
		case "after":
			if !defined {
				return viol("harness", "the defining routine never finished")
			}
			if f[1] != "new" || f[2] != "new" || f[3] != "str" {
				return viol("stale-dispatch", "after every routine finished (sg 1) (sg 2) (sg \"x\") = %v, expected [new new str]", f[1:])
			}
		}
	}
	return nil
}

func (c *Case) judgeS4(out runOut, p program, sfx string, vd *harness.Verdict) *harness.Violation {
	// what each routine reported in the concurrent run
	conc := map[int][]string{}
	for _, m := range out.marks {
		f := fields(m.text)
		if len(f) > 1 && (f[0] == "r" || f[0] == "before") {
			t := atoi(f[1])
			conc[t] = append(conc[t], m.text)
		}
	}
	// the same routine alone, in a fresh world with fresh names
	for t, body := range p.solo {
		sfx2 := lispsim.Suffix()
		solo := strings.ReplaceAll(body, sfx, sfx2)
		setup := strings.ReplaceAll(p.setup, sfx, sfx2)
		so := c.exec(solo, setup, sfx2, true)
		vd.Evals++
		var alone []string
		for _, m := range so.marks {
			if f := fields(m.text); len(f) > 1 && (f[0] == "r" || f[0] == "before") {
				alone = append(alone, strings.ReplaceAll(m.text, sfx2, sfx))
			}
		}
		if so.mainRes.Cond != "" {
			return viol("harness", "routine %d (%s) fails even alone: %s %s", t, c.Work[t], so.mainRes.Cond, so.mainRes.Msg)
		}
		if strings.Join(alone, "\n") != strings.Join(conc[t], "\n") {
			return viol("isolation", "routine %d (%s) reported %q when run with the others but %q alone", t, c.Work[t], conc[t], alone)
		}
	}
	return nil
}

// ---- shrinking ----

func (e *engine) Shrink(raw json.RawMessage) (out []json.RawMessage) {
	var c Case
	_ = json.Unmarshal(raw, &c)
	emit := func(n Case) {
		b, _ := json.Marshal(n)
		out = append(out, b)
	}
	clone := func() Case {
		n := c
		n.Cons = append([]string{}, c.Cons...)
		n.Exits = append([]string{}, c.Exits...)
		n.Work = append([]string{}, c.Work...)
		n.Tape = append([]uint32{}, c.Tape...)
		return n
	}
	fresh := func(n Case) Case { // the program changed: search the schedule again
		n.Replay = false
		n.Tape = nil
		return n
	}
	for _, f := range []func(n *Case) bool{
		func(n *Case) bool { n.P--; return c.P > 1 },
		func(n *Case) bool { n.N--; return c.N > 1 },
		func(n *Case) bool { n.N = 1; return c.N > 2 },
		func(n *Case) bool { n.Iter--; return c.Iter > 1 },
		func(n *Case) bool { n.SleepMs = 0; return c.SleepMs > 0 },
		func(n *Case) bool { n.Nils = false; return c.Nils },
		func(n *Case) bool { n.TimeJumpPct = 0; return c.TimeJumpPct > 0 },
		func(n *Case) bool { n.Procs = 16; return c.Procs != 16 },
		func(n *Case) bool { n.ConsFirst = false; return c.ConsFirst },
		func(n *Case) bool { n.ViaFn = false; return c.ViaFn },
		func(n *Case) bool { n.GateFirst = false; return c.GateFirst },
		func(n *Case) bool { n.Shorts--; return c.Shorts > 0 },
		func(n *Case) bool { n.Cap = 0; return c.Cap > 0 },
	} {
		n := clone()
		if f(&n) {
			emit(fresh(n))
		}
	}
	for i := range c.Cons {
		if len(c.Cons) > 1 {
			n := clone()
			n.Cons = append(n.Cons[:i:i], c.Cons[i+1:]...)
			emit(fresh(n))
		}
		if c.Cons[i] != "pop" && !c.Nils { // (only range tells a nil item from "closed")
			n := clone()
			n.Cons[i] = "pop"
			emit(fresh(n))
		}
	}
	if c.R > 2 && c.Scen != "s4" {
		n := clone()
		n.R--
		if len(n.Exits) > n.R {
			n.Exits = n.Exits[:n.R]
		}
		emit(fresh(n))
	}
	for i := range c.Work {
		if len(c.Work) > 2 {
			n := clone()
			n.Work = append(n.Work[:i:i], c.Work[i+1:]...)
			n.R = len(n.Work)
			emit(fresh(n))
		}
	}
	for i, ex := range c.Exits {
		if ex != "normal" {
			n := clone()
			n.Exits[i] = "normal"
			emit(fresh(n))
		}
	}
	if c.Replay && len(c.Tape) > 0 {
		n := clone()
		n.Tape = n.Tape[:len(n.Tape)/2]
		emit(n)
		for size := len(c.Tape) / 2; size >= 8; size /= 2 {
			for lo := 0; lo+size <= len(c.Tape); lo += size {
				n := clone()
				changed := false
				for i := lo; i < lo+size; i++ {
					if n.Tape[i] != 0 {
						n.Tape[i] = 0
						changed = true
					}
				}
				if changed {
					emit(n)
				}
			}
		}
	}
	if c.YieldPct > 0 {
		n := clone()
		n.YieldPct = 0
		emit(fresh(n))
	}
	return
}

func (e *engine) Matches(raw json.RawMessage, v *harness.Violation, f harness.Finding) bool {
	var c Case
	_ = json.Unmarshal(raw, &c)
	ok := false
	for _, cl := range strings.Split(f.Class, "|") {
		if cl == v.Class {
			ok = true
		}
	}
	if !ok {
		return false
	}
	if f.Trigger == "" {
		return true
	}
	trig := strings.Split(f.Trigger, ":")
	switch trig[0] {
	case "scen":
		return c.Scen == trig[1]
	case "work":
		for _, w := range c.Work {
			if w == trig[1] {
				return true
			}
		}
	case "kind":
		return c.Kind == trig[1]
	case "cons":
		for _, k := range c.Cons {
			if k == trig[1] {
				return true
			}
		}
	}
	return false
}

var _ = sort.Strings

// RaceSweep is the auxiliary, non-gating part of C17: the same seeded programs
// run free on the real Go runtime (simrt in passthrough mode) in a binary built
// with -race. It is runtime monitoring, not simulation: nothing it reports is
// replayable, so it never produces a VIOLATION; the driver lists the race
// detector's reports that name slip frames in the evidence file.
func RaceSweep(n int, seed uint64) (ran, timedOut int, panics int64) {
	warm.Do(warmUp)
	e := &engine{}
	for i := 0; i < n; i++ {
		var c Case
		_ = json.Unmarshal(e.Generate(seed, i, "quick", nil), &c)
		sfx := lispsim.Suffix()
		p := c.program(sfx)
		scope := slip.NewScope()
		if p.setup != "" {
			lispsim.Eval(lispsim.Read(p.setup), scope)
		}
		code := lispsim.Read(p.main)
		var wg sync.WaitGroup
		simrt.RealWG = &wg
		done := make(chan struct{})
		wg.Add(1)
		go func() {
			defer wg.Done()
			lispsim.Eval(code, scope)
		}()
		go func() { wg.Wait(); close(done) }()
		select {
		case <-done:
		case <-time.After(10 * time.Second):
			timedOut++
		}
		ran++
	}
	simrt.RealWG = nil
	return ran, timedOut, simrt.RealPanics.Load()
}
