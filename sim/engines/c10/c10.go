// Package c10 decides property C10: generic dispatch equals the
// specification and is unaffected by its cache, for sequential histories and
// for calls and (re)definitions issued from concurrent routines.
//
// Real code: pkg/generic (Aux.Call, cache, AddMethod, addMethodCaller,
// remove-method, find-method, call-next-method), slip.Method, WhopLoc,
// defclass instances. Simulated: the scheduler (which routine runs at every
// lock acquisition and at the statement-level yields inside the dispatch
// code). Oracle: a cache-free reference dispatcher; with several routines the
// recorded history must be linearizable with respect to it (porcupine).
package c10

import (
	"encoding/json"
	"fmt"
	"os"
	"sort"
	"strings"
	"sync"
	"time"

	"github.com/anishathalye/porcupine"
	"github.com/ohler55/slip"
	"github.com/ohler55/slip/simrt"
	"verif/sim/harness"
	"verif/sim/simkit/lispsim"
	"verif/sim/simkit/sched"
	"verif/sim/simkit/tape"
)

const nClasses = 4

// Op is one operation of a history.
type Op struct {
	K     string `json:"k"`               // def | rem | call | cam (compute-applicable-methods)
	Qual  string `json:"q,omitempty"`     // "" | before | after | around
	Specs []int  `json:"specs,omitempty"` // class index per required argument, -1 = t
	ID    int    `json:"id,omitempty"`    // method id (def)
	Twice bool   `json:"twice,omitempty"` // an :around that calls call-next-method twice
	Args  []int  `json:"args,omitempty"`  // class index of each argument (call)
	// Up: the specializers are spelled in upper case (symbols are not case
	// sensitive: FIXNUM and fixnum name the same class)
	Up bool `json:"up,omitempty"`
}

// Case is a history dealt to 1..3 routines plus the schedule.
type Case struct {
	// Tries > 0 (confirm cases of known findings only): execute the
	// operations under up to Tries different schedules and report the first
	// violation of class Want (a pinned schedule stops reproducing a race as
	// soon as an unrelated edit moves a scheduling point).
	Tries int    `json:"tries,omitempty"`
	Want  string `json:"want,omitempty"`
	// World: "" = a 4-class defclass chain per argument; "builtin" = built-in
	// types (specializers are type names, arguments are literals)
	World string `json:"world,omitempty"`
	Arity int    `json:"arity"`
	// Via: every call goes through one function, i.e. through one compiled
	// call site that all routines share (seeded change C10-l1: a memo kept
	// on the call site object)
	Via bool `json:"via,omitempty"`
	// Enum marks a history of the bounded-exhaustive enumeration.
	Enum  bool   `json:"enum,omitempty"`
	Tasks [][]Op `json:"tasks"`
	// schedule
	// HoldPct: see sched.Config.HoldPct
	HoldPct int `json:"hold_pct,omitempty"`
	Policy    string   `json:"policy"`
	SwitchPct int      `json:"switch_pct"`
	YieldPct  int      `json:"yield_pct"`
	PCTDepth  int      `json:"pct_depth,omitempty"`
	Salt      uint64   `json:"salt"`
	TapeSeed  uint64   `json:"tape_seed"`
	Tape      []uint32 `json:"tape,omitempty"` // recorded schedule (replay)
	Replay    bool     `json:"replay,omitempty"`
}

type engine struct{}

func init() { harness.Register(&engine{}) }

func (e *engine) ID() string { return "C10" }

func (e *engine) Meta() harness.Meta {
	return harness.Meta{
		Level: "exploration",
		Rule: "a case is a seeded history over {defmethod with qualifier in primary/:before/:after/:around and a specializer tuple from a 4-class " +
			"chain (plus t) per argument, remove-method, call with an argument class tuple} on a 1- or 2-argument generic function, dealt to 1-3 " +
			"routines and executed under a seeded schedule (random / PCT / run-to-block / round-robin, yield density 0-100%); half of the " +
			"single-routine histories have length <= 7. evaluations = simulated runs; distinct_nontrivial = distinct event-log fingerprints " +
			"(operations, results and context switches) among runs with at least one call after a definition change or one context switch",
		Real: []string{"pkg/generic (Aux.Call, cache, AddMethod, addMethodCaller, remove-method, find-method, call-next-method, no-applicable-method)",
			"slip.Method.Call/InnerCall, WhopLoc", "pkg/clos defclass/make-instance", "slip evaluator"},
		Stub: []string{"Go scheduler (token-passing scheduler picks the running routine at every Lock and at statement-level yields in the dispatch code)",
			"sync.Mutex blocking (simulated; the real mutex is taken when granted)"},
		Assumptions: []string{
			"reference dispatcher = CLOS standard method combination as stated in the property; a call with applicable daemons but no applicable primary is not judged (the property does not say)",
			"call-next-method is only used in :around methods (slip rejects it elsewhere by design)",
			"porcupine Unknown (timeout) is counted as inconclusive, never reported",
		},
		FaultKinds:    []string{"schedule_perturbation"},
		QuickCases:    24000,
		ThoroughCases: 1500000,
	}
}

// ---- generation ----

var quals = []string{"", "", "", "before", "after", "around", "around"}

func genOp(r *tape.Rand, arity int, nextID *int, wDef, wRem, wCall int, wk string) Op {
	x := r.Intn(wDef + wRem + wCall)
	builtin := wk == "builtin"
	nSpec, nArg := worldSize(wk)
	spec := func() []int {
		s := make([]int, arity)
		for i := range s {
			s[i] = r.Intn(nSpec+1) - 1
		}
		return s
	}
	switch {
	case x < wDef:
		*nextID++
		op := Op{K: "def", Qual: quals[r.Intn(len(quals))], Specs: spec(), ID: *nextID, Up: r.Pct(12)}
		op.Twice = op.Qual == "around" && r.Pct(20)
		return op
	case x < wDef+wRem:
		return Op{K: "rem", Qual: quals[r.Intn(len(quals))], Specs: spec(), Up: r.Pct(12)}
	}
	a := make([]int, arity)
	for i := range a {
		a[i] = r.Intn(nArg)
		if r.Pct(6) && !builtin && wk != "lattice" {
			a[i] = nClasses // nil: only a method specialized on t applies
		}
	}
	if r.Pct(12) {
		return Op{K: "cam", Args: a}
	}
	return Op{K: "call", Args: a}
}

// Bounded-exhaustive part of the thorough tier: every history of three
// operations on a 1-argument generic function and of two operations on a
// 2-argument one, over the full alphabet {defmethod with each of the four
// qualifiers and each specializer tuple over the class chain plus t,
// remove-method of each, call with each argument class tuple}, each followed
// by one call per argument class tuple (so that the state the history left is
// observed completely). Single routine, compared step by step.
func alphabet(arity int) (ops []Op) {
	var tuples func(n, lo, hi int) [][]int
	tuples = func(n, lo, hi int) [][]int {
		if n == 0 {
			return [][]int{{}}
		}
		var out [][]int
		for _, t := range tuples(n-1, lo, hi) {
			for v := lo; v <= hi; v++ {
				out = append(out, append(append([]int{}, t...), v))
			}
		}
		return out
	}
	for _, k := range []string{"def", "rem"} {
		for _, q := range []string{"", "before", "after", "around"} {
			for _, sp := range tuples(arity, -1, nClasses-1) {
				ops = append(ops, Op{K: k, Qual: q, Specs: sp})
			}
		}
	}
	return append(ops, sweep(arity)...)
}

func sweep(arity int) (ops []Op) {
	hi := nClasses - 1
	if arity == 1 {
		hi = nClasses // nil as an argument
	}
	var rec func(pre []int)
	rec = func(pre []int) {
		if len(pre) == arity {
			ops = append(ops, Op{K: "call", Args: append([]int{}, pre...)})
			return
		}
		for v := 0; v <= hi; v++ {
			rec(append(pre, v))
		}
	}
	rec(nil)
	return
}

var (
	alpha1, alpha2 = alphabet(1), alphabet(2)
	enum1          = len(alpha1) * len(alpha1) * len(alpha1)
	enum2          = len(alpha2) * len(alpha2)
)

// EnumCases is the number of enumerated histories in the thorough tier (every
// eighth case until they are used up; the probe enumerated_histories of the
// evidence file says how many actually ran).
func EnumCases() int { return enum1 + enum2 }

func enumCase(idx int) Case {
	c := Case{Arity: 1, Policy: sched.PolicyRTB, Salt: 1, TapeSeed: 1, Enum: true}
	alpha, n := alpha1, 3
	if idx >= enum1 {
		idx -= enum1
		c.Arity, alpha, n = 2, alpha2, 2
	}
	var ops []Op
	for i := 0; i < n; i++ {
		op := alpha[idx%len(alpha)]
		idx /= len(alpha)
		if op.K == "def" {
			op.ID = i + 1
		}
		ops = append(ops, op)
	}
	c.Tasks = [][]Op{append(ops, sweep(c.Arity)...)}
	return c
}

func (e *engine) Generate(seed uint64, idx int, tier string, avoid []harness.Finding) json.RawMessage {
	if tier == "thorough" && idx%8 == 0 && idx/8 < enum1+enum2 {
		// spread over the tier, so that every worker gets its share
		b, _ := json.Marshal(enumCase(idx / 8))
		return b
	}
	r := tape.NewRand(tape.Mix(seed, uint64(idx)))
	builtinOnce.Do(builtinInit)
	c := Case{Arity: 1 + r.Intn(2), Salt: r.Uint64(), TapeSeed: r.Uint64()}
	if r.Pct(12) {
		// three required arguments (seeded change C10-k2: a walk over the
		// argument hierarchies that is exact for one and two arguments only)
		c.Arity = 3
	}
	switch x := r.Intn(100); {
	case x < 25:
		c.World = "builtin"
	case x < 40:
		// classes with several direct superclasses (seeded change C10-k1)
		c.World = "lattice"
	case x < 50:
		c.World = "names"
		if c.Arity == 1 {
			c.Arity = 2
		}
	}
	if r.Pct(3) {
		b, _ := json.Marshal(wideCase(r, c))
		return b
	}
	c.Via = r.Pct(30)
	ntasks := 1
	if r.Pct(60) {
		ntasks = 2 + r.Intn(2)
	}
	n := 2 + r.Intn(6) // <= 7
	if r.Pct(40) {
		n = 8 + r.Intn(33) // long random histories
	}
	if ntasks > 1 && n > 30 {
		n = 30
	}
	wDef, wRem, wCall := 30+r.Intn(40), r.Intn(25), 30+r.Intn(40)
	noArounds := avoidsTrig(avoid, "multi-around") && r.Pct(0)
	_ = noArounds
	nextID := 0
	c.Tasks = make([][]Op, ntasks)
	for i := 0; i < n; i++ {
		op := genOp(r, c.Arity, &nextID, wDef, wRem, wCall, c.World)
		if op.Up && c.World == "builtin" && avoidsTrig(avoid, "up-nonclass") && upNonClass(op) {
			op.Up = false
		}
		t := r.Intn(ntasks)
		c.Tasks[t] = append(c.Tasks[t], op)
	}
	c.Policy = []string{sched.PolicyRandom, sched.PolicyRandom, sched.PolicyPCT, sched.PolicyRTB, sched.PolicyRR}[r.Intn(5)]
	c.SwitchPct = []int{5, 20, 50, 90}[r.Intn(4)]
	c.YieldPct = []int{0, 10, 50, 100}[r.Intn(4)]
	c.PCTDepth = 1 + r.Intn(3)
	c.HoldPct = []int{0, 0, 25, 60}[r.Intn(4)]
	b, _ := json.Marshal(c)
	return b
}

// wideCase scripts a history around a cache-size boundary: a primary on the
// root, calls with n distinct classes, a call that no method applies to, a
// change of the method table, and calls with classes seen before.
func wideCase(r *tape.Rand, c Case) Case {
	c.World, c.Arity, c.Via = "wide", 1, false
	n := 1 + r.Intn(wideN)
	if r.Pct(40) {
		n = []int{8, 16, 32, 64, 100, 128}[r.Intn(6)] + r.Intn(3) - 1 // around the sizes a bound is likely to have
	}
	if n > wideN {
		n = wideN
	}
	ops := []Op{{K: "def", Specs: []int{wideN}, ID: 1}}
	if r.Pct(50) {
		ops = append(ops, Op{K: "def", Qual: "after", Specs: []int{r.Intn(4)}, ID: 2})
	}
	for i := 0; i < n; i++ {
		ops = append(ops, Op{K: "call", Args: []int{i}})
	}
	if r.Pct(80) {
		ops = append(ops, Op{K: "call", Args: []int{wideN}}) // nil: no applicable method
	}
	switch r.Intn(3) {
	case 0:
		ops = append(ops, Op{K: "def", Qual: "before", Specs: []int{wideN}, ID: 3})
	case 1:
		ops = append(ops, Op{K: "def", Specs: []int{0}, ID: 3})
	default:
		ops = append(ops, Op{K: "rem", Specs: []int{wideN}})
	}
	for _, a := range []int{0, 1, n - 1, n / 2} {
		ops = append(ops, Op{K: "call", Args: []int{a}})
	}
	c.Tasks = [][]Op{ops}
	c.Policy, c.SwitchPct, c.YieldPct, c.PCTDepth = sched.PolicyRTB, 5, 0, 1
	return c
}

// upNonClass: the operation spells, in upper case, a built-in type that is
// not a class of the running code (slip.FindClass does not know it: list,
// cons) - the trigger of known finding C10-specializer-case-nonclass.
func upNonClass(op Op) bool {
	if !op.Up {
		return false
	}
	for _, sp := range op.Specs {
		if sp >= 0 && sp < len(builtinSpecs) && slip.FindClass(builtinSpecs[sp]) == nil {
			return true
		}
	}
	return false
}

func avoidsTrig(avoid []harness.Finding, t string) bool {
	for _, f := range avoid {
		if f.Trigger == t {
			return true
		}
	}
	return false
}

// ---- the built-in world ----

var builtinVals = []string{`1`, `1.5`, `"s"`, `'sym`, `'(1 2)`, `'(1 . 2)`, `#(1 2)`, `#\a`}

var (
	builtinOnce  sync.Once
	builtinCPL   [][]string // class precedence of each value, as the running code reports it
	builtinSpecs []string   // every class name that occurs, sorted; "t" is not in it (-1 stands for t)
)

func builtinInit() {
	latticeInit()
	seen := map[string]bool{}
	for _, src := range builtinVals {
		v := lispsim.Read(src).Eval(slip.NewScope(), nil)
		var cpl []string
		if v != nil {
			for _, h := range v.Hierarchy() {
				cpl = append(cpl, string(h))
				if string(h) != "t" {
					seen[string(h)] = true
				}
			}
		}
		builtinCPL = append(builtinCPL, cpl)
	}
	for k := range seen {
		builtinSpecs = append(builtinSpecs, k)
	}
	sort.Strings(builtinSpecs)
}

// rankIn is rank() for the built-in world.
func rankIn(spec, arg int) int {
	cpl := builtinCPL[arg]
	name := "t"
	if spec >= 0 {
		name = builtinSpecs[spec]
	}
	for i, c := range cpl {
		if c == name {
			return i
		}
	}
	return -1
}

// The lattice world: user classes with several direct superclasses. The
// class precedence list of each is asked of the running code (Hierarchy() of
// an instance), as in the built-in world: C10 is about dispatch given the
// precedence, not about how the precedence is computed.
var latticeSupers = [][]int{{}, {0}, {0}, {1, 2}, {3}, {2, 1}}

var latticeCPL [][]int // per class: indices of the classes in precedence order (t is implied last)

func latticeName(sfx string, i int) string { return fmt.Sprintf("l%d%s", i, sfx) }

func latticeDefs(sfx string) string {
	var b strings.Builder
	for i, sup := range latticeSupers {
		var names []string
		for _, j := range sup {
			names = append(names, latticeName(sfx, j))
		}
		fmt.Fprintf(&b, "(defclass %s (%s) ())\n", latticeName(sfx, i), strings.Join(names, " "))
	}
	return b.String()
}

func latticeInit() {
	sfx := lispsim.Suffix()
	sc := slip.NewScope()
	lispsim.Eval(lispsim.Read(latticeDefs(sfx)), sc)
	for i := range latticeSupers {
		v := lispsim.Read(fmt.Sprintf("(make-instance '%s)", latticeName(sfx, i))).Eval(sc, nil)
		var cpl []int
		for _, h := range v.Hierarchy() {
			for j := range latticeSupers {
				if string(h) == latticeName(sfx, j) {
					cpl = append(cpl, j)
				}
			}
		}
		latticeCPL = append(latticeCPL, cpl)
	}
}

// worldSize: number of specializers (t not counted) and of argument values.
func worldSize(wk string) (nSpec, nArg int) {
	switch wk {
	case "builtin":
		return len(builtinSpecs), len(builtinVals)
	case "lattice":
		return len(latticeSupers), len(latticeSupers)
	case "wide":
		return wideN + 1, wideN
	}
	return nClasses, nClasses
}

// The wide world: wideN sibling classes under one root, so that a history can
// call a generic function with more distinct argument classes than any cache
// bound a change is likely to choose (seeded change C10-m2: a two-generation
// cache of 64 entries whose invalidation misses the old generation after a
// failed call). Specializer i < wideN is sibling i, wideN is the root;
// argument wideN is nil.
const wideN = 150

const wideSfx = "-wz"

var wideOnce sync.Once

func wideName(sfx string, i int) string {
	if i == wideN {
		return "wr" + sfx
	}
	return fmt.Sprintf("w%d%s", i, sfx)
}

// rankW is the position of specializer spec in the class precedence list of
// argument value arg in world wk; -1 if it is not in it.
func rankW(wk string, spec, arg int) int {
	switch wk {
	case "builtin":
		return rankIn(spec, arg)
	case "wide":
		switch {
		case arg == wideN: // nil
			if spec == -1 {
				return 0
			}
			return -1
		case spec == arg:
			return 0
		case spec == wideN:
			return 1
		case spec == -1:
			return 3
		}
		return -1
	case "lattice":
		cpl := latticeCPL[arg]
		if spec < 0 {
			return len(cpl) + 1 // t comes last (standard-object lies in between)
		}
		for i, c := range cpl {
			if c == spec {
				return i
			}
		}
		return -1
	}
	return rank(spec, arg)
}

// ---- reference dispatcher ----

type method struct {
	qual  string
	specs []int
	id    int
	twice bool
}

func key(qual string, specs []int) string {
	return fmt.Sprintf("%s|%v", qual, specs)
}

// table is the model state: the set of defined methods.
type table map[string]method

func (t table) canon() string {
	keys := make([]string, 0, len(t))
	for k, m := range t {
		id := m.id
		if m.twice {
			id = -id // the sign carries the "calls call-next-method twice" flag
		}
		keys = append(keys, fmt.Sprintf("%s=%d", k, id))
	}
	sort.Strings(keys)
	return strings.Join(keys, ";")
}

func parseTable(s string) table {
	t := table{}
	if s == "" {
		return t
	}
	for _, kv := range strings.Split(s, ";") {
		var m method
		k, idstr, _ := strings.Cut(kv, "=")
		fmt.Sscan(idstr, &m.id)
		if m.id < 0 {
			m.id, m.twice = -m.id, true
		}
		q, sp, _ := strings.Cut(k, "|")
		m.qual = q
		sp = strings.Trim(sp, "[]")
		for _, f := range strings.Fields(sp) {
			var v int
			fmt.Sscan(f, &v)
			m.specs = append(m.specs, v)
		}
		t[k] = m
	}
	return t
}

// rank of a specializer for an argument of class arg: position in the class
// precedence list (c_arg, c_arg-1, ..., c_0, t); -1 if not applicable.
func rank(spec, arg int) int {
	if arg == nClasses { // nil
		if spec == -1 {
			return 0
		}
		return -1
	}
	if spec == -1 {
		return arg + 1
	}
	if spec > arg {
		return -1
	}
	return arg - spec
}

type expect struct {
	nAround, nBefore, nAfter, nPrimary int

	trace     string
	value     string
	noMethod  bool // no applicable method at all
	noPrimary bool // applicable daemons but no applicable primary: not judged
}

func dispatch(t table, args []int, wk string) expect {
	type am struct {
		m     method
		ranks []int
	}
	var app []am
	for _, m := range t {
		rs := make([]int, len(args))
		ok := true
		for i, a := range args {
			rs[i] = rankW(wk, m.specs[i], a)
			if rs[i] < 0 {
				ok = false
			}
		}
		if ok {
			app = append(app, am{m, rs})
		}
	}
	if len(app) == 0 {
		return expect{noMethod: true}
	}
	sort.Slice(app, func(i, j int) bool { // most specific first, left to right
		for k := range app[i].ranks {
			if app[i].ranks[k] != app[j].ranks[k] {
				return app[i].ranks[k] < app[j].ranks[k]
			}
		}
		return app[i].m.qual < app[j].m.qual
	})
	var arounds, befores, afters, primaries []method
	for _, a := range app {
		switch a.m.qual {
		case "around":
			arounds = append(arounds, a.m)
		case "before":
			befores = append(befores, a.m)
		case "after":
			afters = append(afters, a.m)
		default:
			primaries = append(primaries, a.m)
		}
	}
	var inner []string
	for _, m := range befores {
		inner = append(inner, fmt.Sprintf("b%d", m.id))
	}
	ex := expect{value: "nil", nAround: len(arounds), nBefore: len(befores), nAfter: len(afters), nPrimary: len(primaries)}
	if len(primaries) > 0 {
		inner = append(inner, fmt.Sprintf("p%d", primaries[0].id))
		ex.value = fmt.Sprint(primaries[0].id)
	} else {
		ex.noPrimary = true
	}
	for i := len(afters) - 1; i >= 0; i-- {
		inner = append(inner, fmt.Sprintf("a%d", afters[i].id))
	}
	// call-next-method from around i continues with around i+1, then the
	// inner methods; an around that calls it twice runs the rest twice
	var chain func(i int) []string
	chain = func(i int) []string {
		if i == len(arounds) {
			return inner
		}
		m := arounds[i]
		tr := append([]string{fmt.Sprintf("in%d", m.id)}, chain(i+1)...)
		if m.twice {
			tr = append(append(tr, fmt.Sprintf("again%d", m.id)), chain(i+1)...)
		}
		return append(tr, fmt.Sprintf("out%d", m.id))
	}
	ex.trace = strings.Join(chain(0), " ")
	return ex
}

// output of an executed operation
type output struct {
	Trace string
	Value string
	Cond  string
	Msg   string
}

// step is the sequential specification used directly (1 routine) and as the
// porcupine model (several routines).
func step(state string, in Op, out output, wk string) (bool, string, string) {
	t := parseTable(state)
	switch in.K {
	case "def":
		if out.Cond != "" {
			return false, state, fmt.Sprintf("defmethod failed: %s %s", out.Cond, out.Msg)
		}
		t[key(in.Qual, in.Specs)] = method{qual: in.Qual, specs: in.Specs, id: in.ID, twice: in.Twice}
		return true, t.canon(), ""
	case "rem":
		k := key(in.Qual, in.Specs)
		if _, has := t[k]; has {
			if out.Cond != "" {
				return false, state, fmt.Sprintf("removing an existing method failed: %s %s", out.Cond, out.Msg)
			}
			delete(t, k)
			return true, t.canon(), ""
		}
		// removing a method that does not exist: find-method signals or the
		// removal is a no-op; either way the table is unchanged
		return true, state, ""
	}
	ex := dispatch(t, in.Args, wk)
	if in.K == "cam" {
		// compute-applicable-methods: as many :around, :before and :after
		// methods as are applicable, and a primary iff one is applicable
		if out.Cond != "" {
			return false, state, fmt.Sprintf("compute-applicable-methods signalled %s: %s", out.Cond, out.Msg)
		}
		var a, b, f, p int
		fmt.Sscanf(out.Trace, "cam %d %d %d %d", &a, &b, &f, &p)
		if a != ex.nAround || b != ex.nBefore || f != ex.nAfter || (p > 0) != (ex.nPrimary > 0) {
			return false, state, fmt.Sprintf("compute-applicable-methods returned %d :around, %d :before, %d :after and %d primary methods; applicable are %d, %d, %d and %d",
				a, b, f, p, ex.nAround, ex.nBefore, ex.nAfter, ex.nPrimary)
		}
		return true, state, ""
	}
	switch {
	case ex.noMethod:
		if out.Cond == "" {
			return false, state, fmt.Sprintf("no method is applicable but the call returned %s after running [%s]", out.Value, out.Trace)
		}
		return true, state, ""
	case ex.noPrimary:
		return true, state, "" // not judged
	}
	if out.Cond != "" {
		return false, state, fmt.Sprintf("expected [%s] => %s but the call signalled %s: %s", ex.trace, ex.value, out.Cond, out.Msg)
	}
	if out.Trace != ex.trace || out.Value != ex.value {
		return false, state, fmt.Sprintf("expected [%s] => %s but the call ran [%s] => %s", ex.trace, ex.value, out.Trace, out.Value)
	}
	return true, state, ""
}

// ---- execution ----

var (
	genericOnce sync.Once
	genericSet  map[string]bool
)

// genericFiles returns the names of the source files of pkg/generic.
func genericFiles() map[string]bool {
	genericOnce.Do(func() {
		genericSet = map[string]bool{}
		dir := os.Getenv("REPO_DIR")
		if dir == "" {
			dir = "/repo"
		}
		ents, _ := os.ReadDir(dir + "/pkg/generic")
		for _, e := range ents {
			if strings.HasSuffix(e.Name(), ".go") {
				genericSet[e.Name()] = true
			}
		}
		// the part of the dispatch that lives in package slip (anchors of
		// the property): running a combined method, call-next-method
		for _, f := range []string{"method.go", "whoploc.go", "combination.go"} {
			genericSet[f] = true
		}
	})
	return genericSet
}

type world struct {
	wide    bool
	via     bool
	builtin bool
	lattice bool
	sfx     string
	scope   *slip.Scope
	gf      string
	insts   []string // variable names holding an instance of class i
}

// advNames: in the world "names" the four chain classes are called so that
// the names of (c0, c1) and of (c2, c3) give the same text when written one
// after the other: a key made of class names has to keep them apart (seeded
// change C10-l2: a hashed cache key without a separator).
var advNames bool

func className(sfx string, i int) string {
	if i < 0 {
		return "t"
	}
	if advNames {
		return []string{"z" + sfx, "zy" + sfx, "z" + sfx + "z", "y" + sfx}[i]
	}
	return fmt.Sprintf("c%d%s", i, sfx)
}

func (w *world) spec(i int) string {
	if i < 0 {
		return "t"
	}
	if w.builtin {
		return builtinSpecs[i]
	}
	if w.lattice {
		return latticeName(w.sfx, i)
	}
	if w.wide {
		return wideName(wideSfx, i)
	}
	return className(w.sfx, i)
}

var warm sync.Once

// warmUp brings process-global lazily initialised state (the cache of the
// no-applicable-method generic function, function lookup tables, reader
// constructors) into its steady state, so that a case behaves the same as
// the first case of a fresh process and as the n-th case of a worker.
func warmUp() {
	w := newWorldRaw(1)
	for _, src := range []string{
		fmt.Sprintf("(%s %s)", w.gf, w.insts[0]),
		w.source(Op{K: "def", Qual: "around", Specs: []int{0}, ID: 1}),
		w.source(Op{K: "def", Qual: "before", Specs: []int{0}, ID: 2}),
		w.source(Op{K: "def", Qual: "after", Specs: []int{-1}, ID: 3}),
		w.source(Op{K: "def", Specs: []int{0}, ID: 4}),
		fmt.Sprintf("(%s %s)", w.gf, w.insts[1]),
		w.source(Op{K: "rem", Specs: []int{0}}),
		w.source(Op{K: "rem", Specs: []int{3}}),
		fmt.Sprintf("(%s %s)", w.gf, w.insts[1]),
	} {
		lispsim.Eval(lispsim.Read(src), w.scope)
	}
	w3 := newWorldRaw(1) // only an :around method: call-next-method ends in no-next-method
	lispsim.Eval(lispsim.Read(w3.source(Op{K: "def", Qual: "around", Specs: []int{0}, ID: 1})), w3.scope)
	lispsim.Eval(lispsim.Read(fmt.Sprintf("(%s %s)", w3.gf, w3.insts[0])), w3.scope)
	w2 := newWorldRaw(2)
	lispsim.Eval(lispsim.Read(fmt.Sprintf("(%s %s %s)", w2.gf, w2.insts[0], w2.insts[1])), w2.scope)
}

func newWorld(arity int, wk string) *world {
	warm.Do(warmUp)
	return newWorldKind(arity, wk)
}

func newWorldRaw(arity int) *world { return newWorldKind(arity, "") }

func newWorldKind(arity int, wk string) *world {
	advNames = wk == "names"
	w := &world{sfx: lispsim.Suffix(), scope: slip.NewScope(), builtin: wk == "builtin", lattice: wk == "lattice", wide: wk == "wide"}
	w.gf = "gf" + w.sfx
	var b strings.Builder
	n := nClasses
	if w.wide {
		// the classes and their instances are made once per process: they
		// never change, only the generic function is the case's own
		n = 0
		wideOnce.Do(func() {
			var wb strings.Builder
			fmt.Fprintf(&wb, "(defclass %s () ())\n", wideName(wideSfx, wideN))
			for i := 0; i < wideN; i++ {
				fmt.Fprintf(&wb, "(defclass %s (%s) ())\n(defvar i%d%s (make-instance '%s))\n", wideName(wideSfx, i), wideName(wideSfx, wideN), i, wideSfx, wideName(wideSfx, i))
			}
			if res := lispsim.Eval(lispsim.Read(wb.String()), slip.NewScope()); res.Cond != "" {
				panic("c10: wide world setup failed: " + res.Msg)
			}
		})
		for i := 0; i < wideN; i++ {
			w.insts = append(w.insts, fmt.Sprintf("i%d%s", i, wideSfx))
		}
	} else if w.lattice {
		n = len(latticeSupers)
		b.WriteString(latticeDefs(w.sfx))
	} else {
		for i := 0; i < nClasses; i++ {
			sup := ""
			if i > 0 {
				sup = className(w.sfx, i-1)
			}
			fmt.Fprintf(&b, "(defclass %s (%s) ())\n", className(w.sfx, i), sup)
		}
	}
	params := []string{"a", "b", "c"}[:arity]
	fmt.Fprintf(&b, "(defgeneric %s (%s))\n", w.gf, strings.Join(params, " "))
	fmt.Fprintf(&b, "(defun via%s (%s) (%s %s))\n", w.sfx, strings.Join(params, " "), w.gf, strings.Join(params, " "))
	for i := 0; i < n; i++ {
		v := fmt.Sprintf("i%d%s", i, w.sfx)
		w.insts = append(w.insts, v)
		cn := className(w.sfx, i)
		if w.lattice {
			cn = latticeName(w.sfx, i)
		}
		if w.wide {
			cn = wideName(w.sfx, i)
		}
		fmt.Fprintf(&b, "(defvar %s (make-instance '%s))\n", v, cn)
	}
	res := lispsim.Eval(lispsim.Read(b.String()), w.scope)
	if res.Cond != "" {
		panic(fmt.Sprintf("c10: world setup failed: %s %s", res.Cond, res.Msg))
	}
	return w
}

func (w *world) source(op Op) (out string) {
	params := []string{"a", "b", "c"}
	switch op.K {
	case "def":
		var ll []string
		for i, s := range op.Specs {
			if s == -1 && op.ID%2 == 0 {
				ll = append(ll, params[i]) // an unspecialized parameter is specialized on t
				continue
			}
			ll = append(ll, fmt.Sprintf("(%s %s)", params[i], spell(w.spec(s), op.Up)))
		}
		q := ""
		if op.Qual != "" {
			q = ":" + op.Qual + " "
		}
		body := ""
		switch op.Qual {
		case "around":
			// next-method-p must agree with what call-next-method then does;
			// a third of the arounds hand their arguments on explicitly
			cnm := "(call-next-method)"
			if op.ID%3 == 0 {
				cnm = fmt.Sprintf("(call-next-method %s)", strings.Join(params[:len(op.Specs)], " "))
			}
			defer func() { out = strings.ReplaceAll(out, "(call-next-method)", cnm) }()
			body = fmt.Sprintf(`(sim-emit (if (next-method-p) "in%d" "in%d-no-next")) (let ((r (call-next-method))) (sim-emit "out%d") r)`, op.ID, op.ID, op.ID)
			if op.Twice {
				body = fmt.Sprintf(`(sim-emit (if (next-method-p) "in%d" "in%d-no-next")) (call-next-method) (sim-emit "again%d") (let ((r (call-next-method))) (sim-emit "out%d") r)`, op.ID, op.ID, op.ID, op.ID)
			}
		case "before":
			body = fmt.Sprintf(`(sim-emit "b%d") 'ignored`, op.ID)
		case "after":
			body = fmt.Sprintf(`(sim-emit "a%d") 'ignored`, op.ID)
		default:
			body = fmt.Sprintf(`(sim-emit "p%d") %d`, op.ID, op.ID)
		}
		return fmt.Sprintf("(defmethod %s %s(%s) %s)", w.gf, q, strings.Join(ll, " "), body)
	case "rem":
		var sp []string
		for _, s := range op.Specs {
			sp = append(sp, spell(w.spec(s), op.Up))
		}
		q := "()"
		if op.Qual != "" {
			q = "(:" + op.Qual + ")"
		}
		return fmt.Sprintf("(let ((m (find-method '%s '%s '(%s) nil))) (when m (remove-method '%s m)))",
			w.gf, q, strings.Join(sp, " "), w.gf)
	}
	var as []string
	for _, a := range op.Args {
		if w.builtin {
			as = append(as, builtinVals[a])
			continue
		}
		if (a == nClasses && !w.lattice && !w.wide) || (w.wide && a == wideN) {
			as = append(as, "nil")
			continue
		}
		as = append(as, w.insts[a])
	}
	if op.K == "cam" {
		return fmt.Sprintf("(compute-applicable-methods '%s (list %s))", w.gf, strings.Join(as, " "))
	}
	if w.via {
		return fmt.Sprintf("(via%s %s)", w.sfx, strings.Join(as, " "))
	}
	return fmt.Sprintf("(%s %s)", w.gf, strings.Join(as, " "))
}

func spell(name string, up bool) string {
	if up {
		return strings.ToUpper(name)
	}
	return name
}

type rec struct {
	task     int
	op       Op
	out      output
	call, rt int
}

func viol(class, f string, a ...any) *harness.Violation {
	return &harness.Violation{Class: class, Detail: fmt.Sprintf(f, a...)}
}

func showOp(op Op) string {
	switch op.K {
	case "def":
		return fmt.Sprintf("defmethod#%d %s%v", op.ID, map[string]string{"": "primary"}[op.Qual]+op.Qual, op.Specs)
	case "rem":
		return fmt.Sprintf("remove %s%v", map[string]string{"": "primary"}[op.Qual]+op.Qual, op.Specs)
	}
	if op.K == "cam" {
		return fmt.Sprintf("compute-applicable-methods%v", op.Args)
	}
	return fmt.Sprintf("call%v", op.Args)
}

func (e *engine) Execute(raw json.RawMessage) (vd harness.Verdict) {
	slip.VerifResetPrinter() // lazily grown process-global printer state: the same for every case
	var c Case
	if err := json.Unmarshal(raw, &c); err != nil {
		panic(err)
	}
	if c.Tries > 0 && !c.Replay {
		pols := []string{sched.PolicyRandom, sched.PolicyRR, sched.PolicyPCT, sched.PolicyRandom}
		for i := 0; i < c.Tries; i++ {
			cc := c
			cc.Tries = 0
			cc.TapeSeed = tape.Mix(c.TapeSeed, uint64(i))
			cc.Salt = tape.Mix(c.Salt, uint64(i))
			cc.Policy = pols[i%len(pols)]
			cc.SwitchPct = []int{50, 90, 20}[i%3]
			cc.YieldPct = []int{100, 25}[i%2]
			cc.PCTDepth = 1 + i%3
			b, _ := json.Marshal(cc)
			v := e.Execute(b)
			vd.Evals += v.Evals
			if v.V != nil && (c.Want == "" || v.V.Class == c.Want) {
				v.Evals = vd.Evals
				return v
			}
		}
		return vd
	}
	vd.Evals = 1
	vd.Faults = map[string]int{}
	vd.Probes = map[string]int{}
	builtinOnce.Do(builtinInit)
	w := newWorld(c.Arity, c.World)
	w.via = c.Via
	// compile every operation before the run
	codes := make([][]slip.Code, len(c.Tasks))
	for ti, ops := range c.Tasks {
		for _, op := range ops {
			codes[ti] = append(codes[ti], lispsim.Read(w.source(op)))
		}
	}
	var tp *tape.Tape
	if c.Replay {
		tp = tape.Replay(c.Tape)
	} else {
		tp = tape.New(c.TapeSeed)
	}
	total := 0
	for _, ops := range c.Tasks {
		total += len(ops)
	}
	s := sched.New(sched.Config{HoldPct: c.HoldPct, Policy: c.Policy, SwitchPct: c.SwitchPct, YieldPct: c.YieldPct, PCTDepth: c.PCTDepth,
		PCTHorizon: 200 * (total + 1), Salt: c.Salt, Budget: 4000*(total+1) + 50000}, tp)
	if tf := os.Getenv("C10_TRACE"); tf != "" {
		if f, err := os.Create(tf + w.sfx); err == nil {
			defer f.Close()
			s.Trace = f
		}
	}
	lw := &lispsim.World{S: s}
	lispsim.Begin(lw)
	var recs []rec
	runTask := func(ti int) {
		id := s.CurID()
		// each client evaluates in a scope of its own (an embedder's
		// goroutines must not share an unsynchronized scope); what the
		// clients share are the interpreter's tables
		scope := slip.NewScope()
		for oi, op := range c.Tasks[ti] {
			lw.Traces[id] = nil
			call := s.Seq()
			res := lispsim.Eval(codes[ti][oi], scope)
			out := output{Trace: strings.Join(lw.Traces[id], " "), Value: res.Value, Cond: res.Cond, Msg: res.Msg}
			if op.K != "call" {
				out.Value = "" // a printed method object contains a heap address
			}
			if op.K == "cam" && res.Cond == "" {
				var a, b, f, p int
				if lst, ok := res.Raw.(slip.List); ok {
					for _, o := range lst {
						if m, isM := o.(*slip.Method); isM && len(m.Combinations) > 0 {
							switch c := m.Combinations[0]; {
							case c.Wrap != nil:
								a++
							case c.Before != nil:
								b++
							case c.After != nil:
								f++
							case c.Primary != nil:
								p++
							}
						}
					}
				}
				out.Trace = fmt.Sprintf("cam %d %d %d %d", a, b, f, p)
			}
			rt := s.Seq()
			recs = append(recs, rec{task: ti, op: op, out: out, call: call, rt: rt})
			s.Emit("op", fmt.Sprintf("%s -> [%s] %s %s", showOp(op), out.Trace, out.Value, out.Cond))
		}
	}
	res := s.Run(func() {
		if len(c.Tasks) == 1 {
			runTask(0)
			return
		}
		for ti := range c.Tasks {
			ti := ti
			simrt.Go(func() { runTask(ti) })
		}
	})
	lispsim.End()
	vd.Steps = s.Stats.Steps
	vd.Faults["context_switches"] = s.Stats.Switches
	vd.Probes["lock_contended"] = s.Stats.LockContended
	if c.Enum {
		vd.Probes["enumerated_histories"]++
	}
	vd.Extra = map[string]int{"switch_pairs": len(s.SwitchPairs())}
	pin := func() {
		p := c
		p.Tape = append([]uint32{}, tp.Rec...)
		p.Replay = true
		vd.Pinned, _ = json.Marshal(p)
	}
	if res.Outcome != sched.Completed {
		pin()
		vd.V = viol("no-progress", "run ended with %v; stuck: %v", res.Outcome, res.Stuck)
		return
	}
	for _, t := range res.Panics {
		pin()
		vd.V = viol("task-died", "a routine died with %v", t.PanicVal)
		return
	}
	// only the dispatch tables are C10's subject; races on other shared
	// tables belong to C17
	var auxRaces []string
	for _, r := range s.MapRaces {
		// "kind file.go:function:Type.field file.go:function:Type.field":
		// the race belongs to C10 when its write window was opened by the
		// dispatch code (a file of pkg/generic)
		f := strings.Fields(r)
		if strings.HasPrefix(sched.RaceMap(r), "Aux.") || (len(f) >= 2 && genericFiles()[f[1][:strings.IndexByte(f[1]+":", ':')]]) {
			auxRaces = append(auxRaces, r)
		}
	}
	if m, races := sched.UnknownRaces(auxRaces, nil); m != "" {
		pin()
		vd.V = viol("map-race:"+m, "two routines access the Go map %s with nothing ordering them (kind, site of the open write window, site of the other access): %v", m, races)
		return
	}
	for _, r := range recs {
		if r.out.Cond == "host-fault" {
			pin()
			vd.V = viol("host-fault", "%s died with %s", showOp(r.op), r.out.Msg)
			return
		}
	}
	// quiescent check: after everything ended, one call per argument tuple
	var quiet []rec
	{
		qs := sched.New(sched.Config{Policy: sched.PolicyRTB, Budget: 1 << 22}, tape.Replay(nil))
		qw := &lispsim.World{S: qs}
		lispsim.Begin(qw)
		qs.Run(func() {
			id := qs.CurID()
			var tuples [][]int
			_, nArg := worldSize(c.World)
			if c.Arity == 1 {
				for a := 0; a < nArg; a++ {
					tuples = append(tuples, []int{a})
				}
			} else if c.Arity == 3 {
				// a sample of the triples, the same for every run of the case
				for a := 0; a < nArg; a++ {
					for b := 0; b < nArg; b++ {
						for d := 0; d < nArg; d++ {
							if nArg*nArg*nArg <= 64 && (a+b+d)%2 == 0 || nArg*nArg*nArg > 64 && (a+2*b+3*d)%(nArg+1) == 0 {
								tuples = append(tuples, []int{a, b, d})
							}
						}
					}
				}
			} else {
				for a := 0; a < nArg; a++ {
					for b := 0; b < nArg; b++ {
						if w.builtin && (a+b)%3 != 0 {
							continue // a third of the 64 pairs is enough
						}
						tuples = append(tuples, []int{a, b})
					}
				}
			}
			for _, tu := range tuples {
				op := Op{K: "call", Args: tu}
				qw.Traces[id] = nil
				r := lispsim.Eval(lispsim.Read(w.source(op)), w.scope)
				quiet = append(quiet, rec{task: 99, op: op, out: output{Trace: strings.Join(qw.Traces[id], " "), Value: r.Value, Cond: r.Cond, Msg: r.Msg}})
			}
		})
		lispsim.End()
	}
	nontrivial := s.Stats.Switches > 0
	if len(c.Tasks) == 1 {
		state := ""
		changed := false
		for _, r := range append(recs, quiet...) {
			ok, ns, why := step(state, r.op, r.out, c.World)
			if !ok {
				pin()
				vd.V = viol("dispatch-differs", "after %s: %s: %s", historyBefore(recs, r), showOp(r.op), why)
				return
			}
			if r.op.K == "call" && changed {
				nontrivial = true
			}
			if r.op.K != "call" {
				changed = true
			}
			state = ns
		}
	} else {
		last := 0
		for _, r := range recs {
			if r.rt > last {
				last = r.rt
			}
		}
		var ops []porcupine.Operation
		for _, r := range recs {
			ops = append(ops, porcupine.Operation{ClientId: r.task, Input: r.op, Call: int64(r.call), Output: r.out, Return: int64(r.rt)})
		}
		for i, r := range quiet {
			ops = append(ops, porcupine.Operation{ClientId: len(c.Tasks), Input: r.op, Call: int64(last + 1 + 2*i), Output: r.out, Return: int64(last + 2 + 2*i)})
		}
		model := porcupine.Model{
			Init: func() any { return "" },
			Step: func(state, in, out any) (bool, any) {
				ok, ns, _ := step(state.(string), in.(Op), out.(output), c.World)
				return ok, ns
			},
			Equal: func(a, b any) bool { return a.(string) == b.(string) },
		}
		switch porcupine.CheckOperationsTimeout(model, ops, 20*time.Second) {
		case porcupine.Illegal:
			pin()
			var hist []string
			for _, r := range recs {
				cond := r.out.Cond
				if cond != "" {
					cond += " (" + r.out.Msg + ")"
				}
				hist = append(hist, fmt.Sprintf("r%d[%d,%d] %s -> [%s] %s%s", r.task, r.call, r.rt, showOp(r.op), r.out.Trace, r.out.Value, cond))
			}
			for _, r := range quiet {
				hist = append(hist, fmt.Sprintf("after all: %s -> [%s] %s%s", showOp(r.op), r.out.Trace, r.out.Value, r.out.Cond))
			}
			vd.V = viol("not-linearizable", "no sequential order of the concurrent history matches the reference dispatcher: %s", strings.Join(hist, "; "))
			return
		case porcupine.Unknown:
			vd.Probes["porcupine_unknown"]++
		}
	}
	if nontrivial {
		vd.Hashes = []uint64{s.Hash()}
	}
	return
}

func historyBefore(recs []rec, upto rec) string {
	var h []string
	for _, r := range recs {
		if r.call == upto.call && r.rt == upto.rt && r.task == upto.task {
			break
		}
		h = append(h, showOp(r.op))
	}
	if len(h) > 12 {
		h = append([]string{fmt.Sprintf("…%d ops…", len(h)-12)}, h[len(h)-12:]...)
	}
	return "[" + strings.Join(h, ", ") + "]"
}

// ---- shrinking ----

func (e *engine) Shrink(raw json.RawMessage) (out []json.RawMessage) {
	var c Case
	_ = json.Unmarshal(raw, &c)
	emit := func(n Case) {
		b, _ := json.Marshal(n)
		out = append(out, b)
	}
	clone := func() Case {
		n := c
		n.Tasks = make([][]Op, len(c.Tasks))
		for i := range c.Tasks {
			n.Tasks[i] = append([]Op{}, c.Tasks[i]...)
		}
		n.Tape = append([]uint32{}, c.Tape...)
		return n
	}
	// fewer routines: everything in one routine (schedule no longer matters)
	if len(c.Tasks) > 1 {
		n := clone()
		var all []Op
		for _, t := range c.Tasks {
			all = append(all, t...)
		}
		n.Tasks = [][]Op{all}
		n.Tape = []uint32{}
		emit(n)
		for ti := range c.Tasks {
			if len(c.Tasks[ti]) == 0 {
				n := clone()
				n.Tasks = append(n.Tasks[:ti:ti], c.Tasks[ti+1:]...)
				emit(n)
			}
		}
	}
	// drop operations
	for ti := range c.Tasks {
		ops := c.Tasks[ti]
		for size := len(ops) / 2; size >= 1; size /= 2 {
			for lo := 0; lo+size <= len(ops); lo += size {
				n := clone()
				n.Tasks[ti] = append(append([]Op{}, ops[:lo]...), ops[lo+size:]...)
				emit(n)
			}
		}
	}
	// plain spelling, single call-next-method
	for ti := range c.Tasks {
		for oi, op := range c.Tasks[ti] {
			if op.Up || op.Twice {
				n := clone()
				n.Tasks[ti][oi].Up, n.Tasks[ti][oi].Twice = false, false
				emit(n)
			}
		}
	}
	// simpler schedule: shorter tape, zeroed tail, lower yield density
	if len(c.Tape) > 0 {
		n := clone()
		n.Tape = n.Tape[:len(n.Tape)/2]
		emit(n)
		for size := len(c.Tape) / 2; size >= 1; size /= 2 {
			for lo := 0; lo+size <= len(c.Tape); lo += size {
				allZero := true
				for _, v := range c.Tape[lo : lo+size] {
					if v != 0 {
						allZero = false
					}
				}
				if allZero {
					continue
				}
				n := clone()
				for i := lo; i < lo+size; i++ {
					n.Tape[i] = 0
				}
				emit(n)
			}
			if size < 4 && len(c.Tape) > 64 {
				break
			}
		}
	}
	if c.Arity >= 2 {
		// try the projection to one argument less
		n := clone()
		n.Arity = c.Arity - 1
		for ti := range n.Tasks {
			for oi := range n.Tasks[ti] {
				op := &n.Tasks[ti][oi]
				if len(op.Specs) == c.Arity {
					op.Specs = op.Specs[:n.Arity]
				}
				if len(op.Args) == c.Arity {
					op.Args = op.Args[:n.Arity]
				}
			}
		}
		n.Tape = []uint32{}
		emit(n)
	}
	return
}

func (e *engine) Matches(raw json.RawMessage, v *harness.Violation, f harness.Finding) bool {
	var c Case
	_ = json.Unmarshal(raw, &c)
	ok := false
	for _, cl := range strings.Split(f.Class, "|") {
		if cl == v.Class {
			ok = true
		}
	}
	if !ok {
		return false
	}
	switch f.Trigger {
	case "":
		return true
	case "multi-around":
		n := 0
		for _, t := range c.Tasks {
			for _, op := range t {
				if op.K == "def" && op.Qual == "around" {
					n++
				}
			}
		}
		return n >= 2
	case "concurrent":
		return len(c.Tasks) > 1
	case "up-nonclass":
		if c.World != "builtin" {
			return false
		}
		builtinOnce.Do(builtinInit)
		for _, t := range c.Tasks {
			for _, op := range t {
				if upNonClass(op) {
					return true
				}
			}
		}
		return false
	}
	return false
}
