// Package c02 decides property C02: reading is a function of the text, not
// of how the text is delivered.
//
// Real code: the slip reader (slip.ReadStream in all-forms and one-form mode,
// ReadStreamEach, ReadStreamPush, cl:read on seekable and non-seekable
// streams, gi:read-each). Simulated: the byte source - an io.Reader /
// io.ReadSeeker that hands the text over in pieces chosen by the plan (every
// single cut position, fixed chunk sizes, random multi-cuts, zero-length
// reads, EOF delivered with or after the last data, a read error after k
// bytes, truncation at every prefix).
package c02

import (
	"encoding/json"
	"errors"
	"fmt"
	"hash/fnv"
	"io"
	"os"
	"strings"
	"unicode/utf8"

	"github.com/ohler55/slip"
	_ "github.com/ohler55/slip/pkg"
	"github.com/ohler55/slip/pkg/swank"
	"github.com/ohler55/slip/simrt"
	"verif/sim/harness"
	"verif/sim/simkit/sched"
	"verif/sim/simkit/tape"
)

// Plan says how the bytes are delivered.
type Plan struct {
	Sizes []int `json:"sizes"`           // chunk sizes; 0 = a (0,nil) read
	Cycle bool  `json:"cycle,omitempty"` // repeat Sizes; otherwise the rest comes in one piece
	// EOFWithData: the last data is returned together with io.EOF.
	EOFWithData bool `json:"eof_with_data,omitempty"`
	// ErrAfter >= 0: after that many bytes the reader fails with an error.
	ErrAfter int `json:"err_after"`
}

// Pin fixes front end and plan.
type Pin struct {
	Front string `json:"front"`
	Plan  Plan   `json:"plan"`
}

// Case is one source text with its reader configuration.
type Case struct {
	Text     []byte `json:"text"`
	Show     string `json:"show"` // the text again, readable in a sample
	ReadBase int    `json:"read_base"`
	FloatFmt string `json:"float_format"`
	Pin      *Pin   `json:"pin,omitempty"`
	// Zero enables zero-length reads and Err read errors in the plans.
	Zero bool `json:"zero_reads,omitempty"`
	// MustFail: the text was cut at a position the generator knows to be
	// inside a form: it must be reported incomplete or as a parse error by
	// every reader, the whole-string read included.
	MustFail bool `json:"must_fail,omitempty"`
	// RFSAscii: cl:read-from-string only sees ASCII texts (known finding
	// C02-read-from-string-bytes).
	RFSAscii bool `json:"rfs_ascii,omitempty"`
	// RFSFirst: cl:read-from-string reads only the first form, from :start 0
	// (known finding C02-read-from-string-start).
	RFSFirst bool `json:"rfs_first,omitempty"`
	// SkipFronts lists front ends left out (known findings).
	SkipFronts []string `json:"skip_fronts,omitempty"`
	Seed       uint64   `json:"plan_seed"`
	// Conc: the text is read by two routines at the same time, each with its
	// own reader variables, under a seeded schedule (seeded change C02-n1: a
	// process-wide cache of resolved tokens)
	Conc *Conc `json:"conc,omitempty"`
}

// Conc is the second reader configuration and the schedule of a concurrent case.
type Conc struct {
	ReadBase  int      `json:"read_base"`
	FloatFmt  string   `json:"float_format"`
	Policy    string   `json:"policy"`
	SwitchPct int      `json:"switch_pct"`
	YieldPct  int      `json:"yield_pct"`
	TapeSeed  uint64   `json:"tape_seed"`
	Tape      []uint32 `json:"tape,omitempty"`
	Replay    bool     `json:"replay,omitempty"`
}

type engine struct{}

func init() { harness.Register(&engine{}) }

func (e *engine) ID() string { return "C02" }

func (e *engine) Meta() harness.Meta {
	return harness.Meta{
		Level: "fault_enumeration",
		Rule: "a case is a seeded source text over the token grammar (lists, dotted pairs, strings with escapes, |symbols|, characters, " +
			"numbers in all radixes and float formats, #( #nA #* #' ' ` , ,@, comments, multi-byte UTF-8) or a prefix of one, with *read-base* and " +
			"*read-default-float-format* drawn per case; it is read once from a string (the reference) and then through every stream front end " +
			"under every single cut position, every fixed chunk size 1..8, 4095/4096, random multi-cuts, EOF with/after the last data and a read " +
			"error after k bytes. evaluations = stream reads; distinct_nontrivial = distinct (text, front end, delivery plan) triples in which the " +
			"text arrived in more than one piece or a fault was injected",
		Real: []string{"slip.ReadString/ReadOne (reference)", "slip.ReadStream (all, one)", "slip.ReadStreamEach", "slip.ReadStreamPush",
			"cl:read on seekable and non-seekable streams", "gi:read-each", "RuneReader"},
		Stub:          []string{"the byte source (io.Reader / io.ReadSeeker with a delivery and fault plan)"},
		Assumptions:   []string{"the whole-string read defines what a text denotes", "condition message text (line:col) is not compared, only class and nesting depth"},
		FaultKinds:    []string{"cut", "short_read", "zero_read", "eof_with_data", "read_error", "truncation"},
		QuickCases:    3000,
		ThoroughCases: 100000,
	}
}

// ---- text generation ----

var (
	symbols = []string{"foo", "bar-baz", "*x*", "a1", ":key", "&rest", "t", "nil", "T", "NIL", "car", "ff", "zz", "x", "+", "1+", "a.b", "|a b|", "|λ x|", "||", "|p\\|q|"}
	strs    = []string{`"abc"`, `""`, `"a\"b"`, `"tab\there"`, `"uniéx"`, `"\U0001F600!"`, `"üñí日本"`, "\"multi\nline\"", `"semi;colon"`, `"paren)("`,
		`"back\\slash"`, `"long string with several words in it"`, `"#|not a comment|#"`}
	chars = []string{`#\a`, `#\A`, `#\Space`, `#\newline`, `#\ü`, `#\λ`, `#\u3bb`, `#\Tab`, `#\0`}
	nums  = []string{"42", "-7", "+5", "0", "3.5", "-0.25", "1e3", "1.5d2", "2.5s0", "1.0f-2", "1.5L1", "1/2", "-3/4", "123456789012345678901234567890",
		"10.", "101", "777", "#b101", "#o17", "#xFF", "#x-1a", "#3r12", "#36rZZ", "#B11", "#XaB"}
	specials = []string{"#*1011", "#*", "#'car", "'x", "'(1 2)", "`(a ,b ,@c)", "#C(1 2)", "@2024-01-02T03:04:05Z", "#(1 2 3)", "#()", "#2A((1 2) (3 4))", "#1A(1 2)", "#0A5"}
	comments = []string{"; comment\n", ";; more ) ( \" comment\n", "#| block |#", "#| multi\nline ; |#"}
	seps     = []string{" ", " ", " ", "\n", "  ", "\t", "\n  "}
)

// inside collects the cut positions p (the text is cut to text[:p]) that are
// known, from the way the text was generated and not from any scanner of
// ours, to lie inside a form: after the opening and before the closing
// character of a list, vector, array, string or |symbol|, and right after a
// quote-like prefix or a # dispatch. A text cut there "stops inside a form".
type inside map[int]bool

func (in inside) span(start, end int) { // start = index of the first, end = index of the last character
	for p := start + 1; p <= end; p++ {
		in[p] = true
	}
}

func markAtom(in inside, a string, start int) {
	if in == nil || len(a) == 0 {
		return
	}
	end := start + len(a) - 1
	switch {
	case strings.HasPrefix(a, "#|"), a[0] == ';':
		// a comment is not a form
	case a[0] == '"', a[0] == '|':
		in.span(start, end)
	case a[len(a)-1] == ')':
		in.span(start, end)
	case a[0] == '\'', a[0] == '`':
		in[start+1] = true
	case strings.HasPrefix(a, "#'"):
		in[start+1], in[start+2] = true, true
	case strings.HasPrefix(a, "#\\"):
		in[start+1], in[start+2] = true, true
	case a[0] == '#' && a != "#*":
		in[start+1] = true
		if len(a) > 2 && strings.IndexByte("bBoOxX", a[1]) >= 0 {
			in[start+2] = true
		}
	}
}

// pieces that strings, |symbols| and comments are composed of: plain text,
// every delimiter of the grammar where it does not delimit, characters of 2,
// 3 and 4 bytes, and code points that text tools like to treat specially
// (byte order mark / zero width no-break space, line separator, no-break
// space, replacement character, soft hyphen).
var pieces = []string{"a", "Bc", "x y", " ", "0", "(", ")", ";", "'", "`", ",", ",@", "#", "#(", "@", ".", ":", "é", "ß", "λ", "日本", "\U0001F600",
	"\ufeff", "\u2028", "\u00a0", "\ufffd", "\u00ad", "\ufeffx", "q\ufeff", "\n", "\t", "  "}

// plainText is set while a "plain" text is generated: one without the escape
// character, the bar, # and the comma, i.e. a text the byte-at-a-time read of
// a stream that can not seek handles on the unchanged tree (front
// cl:peek+read-nonseek-safe). Without this profile hardly any text with
// several forms, strings and comments qualified for that front (seeded change
// C02-k1: a parenthesis count that does not know strings and comments).
var plainText bool

const notPlain = "\\|#,"

func compose(r *tape.Rand, extra []string) string {
	var b strings.Builder
	for i, n := 0, r.Intn(6); i < n; i++ {
		piece := pieces[r.Intn(len(pieces))]
		if len(extra) > 0 && r.Pct(25) {
			piece = extra[r.Intn(len(extra))]
		}
		if plainText && strings.ContainsAny(piece, notPlain) {
			piece = []string{"(", ")", "((", ";", "'", " "}[r.Intn(6)]
		}
		b.WriteString(piece)
	}
	return b.String()
}

func genString(r *tape.Rand) string {
	return `"` + compose(r, []string{`\"`, `\\`, `\t`, `\n`, "|", "#|", "|#"}) + `"`
}

func genBarSymbol(r *tape.Rand) string {
	return "|" + compose(r, []string{`\|`, `"`, "#"}) + "|"
}

func genComment(r *tape.Rand) string {
	if r.Pct(50) {
		return ";" + strings.ReplaceAll(compose(r, []string{`"`, "|", "#|", "|#", `\`}), "\n", " ") + "\n"
	}
	body := compose(r, []string{`"`, `\`, "| ", " #"})
	body = strings.ReplaceAll(strings.ReplaceAll(body, "|#", "| #"), "#|", "# |")
	if strings.HasSuffix(body, "|") || strings.HasSuffix(body, "#") {
		body += " "
	}
	if strings.HasPrefix(body, "#") || strings.HasPrefix(body, "|") {
		body = " " + body
	}
	return "#|" + body + "|#"
}

func pickComment(r *tape.Rand) string {
	if plainText {
		return ";" + strings.ReplaceAll(compose(r, []string{`"`, "(", ")"}), "\n", " ") + "\n"
	}
	if r.Pct(50) {
		return genComment(r)
	}
	return comments[r.Intn(len(comments))]
}

func genAtom(r *tape.Rand) string {
	for {
		a := genAtomAny(r)
		if !plainText || !strings.ContainsAny(a, notPlain) {
			return a
		}
	}
}

func genAtomAny(r *tape.Rand) string {
	switch r.Intn(10) {
	case 0, 1, 2:
		if r.Pct(20) {
			return genBarSymbol(r)
		}
		return symbols[r.Intn(len(symbols))]
	case 3, 4:
		if r.Pct(50) {
			return genString(r)
		}
		return strs[r.Intn(len(strs))]
	case 5:
		return chars[r.Intn(len(chars))]
	case 6, 7:
		return nums[r.Intn(len(nums))]
	default:
		return specials[r.Intn(len(specials))]
	}
}

func genForm(r *tape.Rand, depth int, b *strings.Builder, in inside) {
	if depth > 0 && r.Pct(40) {
		start := b.Len()
		defer func() { in.span(start, b.Len()-1) }()
		open := "("
		switch r.Intn(8) {
		case 0:
			if !plainText {
				open = "#("
			}
		case 1:
			open = "'("
		}
		b.WriteString(open)
		n := r.Intn(5)
		for i := 0; i < n; i++ {
			if i > 0 || r.Pct(10) {
				b.WriteString(seps[r.Intn(len(seps))])
			}
			genForm(r, depth-1, b, in)
			if r.Pct(6) || (plainText && r.Pct(15)) {
				b.WriteString(" ")
				b.WriteString(pickComment(r))
			}
		}
		if n >= 1 && open == "(" && r.Pct(12) {
			b.WriteString(" . ")
			b.WriteString(genAtom(r))
		}
		b.WriteString(")")
		return
	}
	a := genAtom(r)
	markAtom(in, a, b.Len())
	b.WriteString(a)
}

func genText(r *tape.Rand, in inside) string {
	var b strings.Builder
	n := 1 + r.Intn(6)
	if r.Pct(15) {
		n = 1
	}
	for i := 0; i < n; i++ {
		// forms are separated by white space - except that a list needs none
		// on either side: foo(bar)"s"(x)12 (seeded change C02-i2)
		var fb strings.Builder
		sub := inside{}
		genForm(r, 3, &fb, sub)
		f := fb.String()
		glued := i > 0 && r.Pct(20) && (strings.HasSuffix(b.String(), ")") || f[0] == '(')
		if i > 0 && !glued {
			b.WriteString(seps[r.Intn(len(seps))])
		}
		if !glued && r.Pct(8) {
			b.WriteString(pickComment(r))
		}
		if in != nil {
			for p := range sub {
				in[b.Len()+p] = true
			}
		}
		b.WriteString(f)
	}
	if r.Pct(30) {
		b.WriteString(seps[r.Intn(len(seps))])
	}
	return b.String()
}

func (e *engine) Generate(seed uint64, idx int, tier string, avoid []harness.Finding) json.RawMessage {
	r := tape.NewRand(tape.Mix(seed, uint64(idx)))
	c := Case{ReadBase: 10, FloatFmt: "double-float", Seed: r.Uint64()}
	if r.Pct(25) {
		c.ReadBase = []int{2, 8, 16, 36}[r.Intn(4)]
	}
	if r.Pct(25) {
		c.FloatFmt = []string{"single-float", "short-float", "long-float"}[r.Intn(3)]
	}
	in := inside{}
	plainText = r.Pct(15)
	text := genText(r, in)
	plainText = false
	if r.Pct(25) && len(text) > 2 { // truncated: the producer died
		cut := 1 + r.Intn(len(text)-1)
		if r.Pct(40) && len(in) > 0 { // prefer a cut inside a form
			k := r.Intn(len(text))
			for p := 0; p < len(text); p++ {
				if in[(k+p)%len(text)] {
					cut = (k + p) % len(text)
					break
				}
			}
		}
		if cut > 0 && cut < len(text) {
			c.MustFail = in[cut]
			text = text[:cut]
		}
	}
	if tier == "thorough" && r.Pct(2) {
		// realistic delivery: a file larger than the 64 KiB block, with the
		// interesting text straddling the boundary
		pad := 65536 - r.Intn(len(text)+1)
		if pad > 0 {
			text = ";" + strings.Repeat("x", pad-2) + "\n" + text
		}
	}
	c.Text = []byte(text)
	c.Show = text
	if len(c.Show) > 300 {
		c.Show = fmt.Sprintf("<%d bytes of comment>", len(text)-300) + text[len(text)-300:]
	}
	c.Zero = r.Pct(30) && !avoidTrig(avoid, "zero-read")
	c.RFSAscii = avoidTrig(avoid, "rfs-nonascii")
	c.RFSFirst = avoidTrig(avoid, "rfs-start")
	for _, f := range avoid {
		if strings.HasPrefix(f.Trigger, "front:") {
			c.SkipFronts = append(c.SkipFronts, strings.TrimPrefix(f.Trigger, "front:"))
		}
	}
	if r.Pct(6) {
		// (drawn last, so that every other case is what it was before)
		c.Conc = &Conc{ReadBase: []int{10, 16, 8, 36, 2}[r.Intn(5)], FloatFmt: []string{"double-float", "single-float", "long-float"}[r.Intn(3)],
			Policy:    []string{sched.PolicyRandom, sched.PolicyPCT, sched.PolicyRR}[r.Intn(3)],
			SwitchPct: []int{20, 50, 90}[r.Intn(3)], YieldPct: []int{5, 25, 100}[r.Intn(3)], TapeSeed: r.Uint64()}
		if c.Conc.ReadBase == c.ReadBase {
			c.Conc.ReadBase = map[int]int{10: 16, 16: 10, 8: 10, 36: 10, 2: 10}[c.ReadBase]
		}
	}
	b, _ := json.Marshal(c)
	return b
}

// concurrent runs a case in which two routines read the same text at the
// same time, each in a scope of its own with its own *read-base* and
// *read-default-float-format*: whatever the schedule, each routine must read
// what its configuration reads alone - from the string and from a stream in
// pieces.
func (e *engine) concurrent(c *Case) (vd harness.Verdict) {
	vd.Evals = 1
	vd.Faults = map[string]int{}
	vd.Probes = map[string]int{"concurrent_cases": 1}
	cfgs := []*Case{c, {}}
	*cfgs[1] = *c
	cfgs[1].ReadBase, cfgs[1].FloatFmt = c.Conc.ReadBase, c.Conc.FloatFmt
	plan := Plan{Sizes: []int{3}, Cycle: true, ErrAfter: -1}
	var refs [2][2]outcome
	for i, cc := range cfgs {
		refs[i][0] = reference(cc, "ReadStream")
		refs[i][1], _ = runFront(cc, "ReadStream", plan)
		if refs[i][0].kind == "go-panic" {
			vd.Probes["reference_host_fault"]++
			return
		}
	}
	var tp *tape.Tape
	if c.Conc.Replay {
		tp = tape.Replay(c.Conc.Tape)
	} else {
		tp = tape.New(c.Conc.TapeSeed)
	}
	s := sched.New(sched.Config{Policy: c.Conc.Policy, SwitchPct: c.Conc.SwitchPct, YieldPct: c.Conc.YieldPct, PCTDepth: 2,
		PCTHorizon: 4000, Salt: c.Seed, Budget: 400000 + 4000*len(c.Text)}, tp)
	var bad [2]string
	task := func(i int) {
		for round := 0; round < 3 && bad[i] == ""; round++ {
			got := [2]outcome{reference(cfgs[i], "ReadStream")}
			got[1], _ = runFront(cfgs[i], "ReadStream", plan)
			for k, how := range []string{"from the string", "from a stream in pieces of 3 bytes"} {
				if got[k].kind != refs[i][k].kind || got[k].class != refs[i][k].class || got[k].depth != refs[i][k].depth || !sameObjects(refs[i][k], got[k]) {
					bad[i] = fmt.Sprintf("read %s with *read-base* %d and %s, round %d, gives %v; read alone it gives %v", how, cfgs[i].ReadBase, cfgs[i].FloatFmt, round, got[k], refs[i][k])
					break
				}
			}
		}
	}
	res := s.Run(func() {
		simrt.Go(func() { task(0) })
		simrt.Go(func() { task(1) })
	})
	vd.Steps = s.Stats.Steps
	vd.Faults["context_switches"] = s.Stats.Switches
	pin := func() {
		p := *c
		cc := *c.Conc
		cc.Tape = append([]uint32{}, tp.Rec...)
		cc.Replay = true
		p.Conc = &cc
		vd.Pinned, _ = json.Marshal(p)
	}
	if res.Outcome != sched.Completed {
		pin()
		vd.V = viol("concurrent-no-progress", "two routines reading %q at the same time: the run ended with %v; stuck: %v", c.Show, res.Outcome, res.Stuck)
		return
	}
	for _, t := range res.Panics {
		pin()
		vd.V = viol("concurrent-read", "two routines reading %q at the same time: a routine died with %v", c.Show, t.PanicVal)
		return
	}
	for i := range bad {
		if bad[i] != "" {
			pin()
			vd.V = viol("concurrent-read", "two routines read the text %q at the same time, each with reader variables of its own: routine %d %s", c.Show, i, bad[i])
			return
		}
	}
	if m, races := sched.UnknownRaces(s.MapRaces, nil); m != "" {
		pin()
		vd.V = viol("map-race:"+m, "two routines reading at the same time access the shared Go map or slice %s with nothing ordering them: %v", m, races)
		return
	}
	return
}

func avoidTrig(avoid []harness.Finding, t string) bool {
	for _, f := range avoid {
		if f.Trigger == t {
			return true
		}
	}
	return false
}

// ---- the simulated byte source ----

var errInjected = errors.New("simio: injected read error")

type source struct {
	data  []byte
	off   int
	plan  Plan
	pi    int
	reads int
	// fired faults
	zero, short, eofData, errFired int
}

func (s *source) Read(p []byte) (int, error) {
	s.reads++
	if s.plan.ErrAfter >= 0 && s.off >= s.plan.ErrAfter {
		s.errFired++
		return 0, errInjected
	}
	if s.off >= len(s.data) {
		return 0, io.EOF
	}
	n := len(s.data) - s.off
	if s.pi < len(s.plan.Sizes) || (s.plan.Cycle && len(s.plan.Sizes) > 0) {
		k := s.plan.Sizes[s.pi%len(s.plan.Sizes)]
		s.pi++
		if k < n {
			n = k
		}
	}
	if s.plan.ErrAfter >= 0 && s.off+n > s.plan.ErrAfter {
		n = s.plan.ErrAfter - s.off
	}
	if n > len(p) {
		n = len(p)
	}
	if n == 0 {
		s.zero++
		return 0, nil
	}
	copy(p, s.data[s.off:s.off+n])
	s.off += n
	if s.off < len(s.data) {
		s.short++
	}
	if s.off == len(s.data) && s.plan.EOFWithData && s.plan.ErrAfter < 0 {
		s.eofData++
		return n, io.EOF
	}
	return n, nil
}

// seekSource adds Seek (cl:read's seekable path).
type seekSource struct{ source }

func (s *seekSource) Seek(offset int64, whence int) (int64, error) {
	switch whence {
	case io.SeekStart:
		s.off = int(offset)
	case io.SeekCurrent:
		s.off += int(offset)
	case io.SeekEnd:
		s.off = len(s.data) + int(offset)
	}
	// a seek restarts delivery "from the disk": keep the plan position
	return int64(s.off), nil
}

// streamObj makes a source a Lisp stream object.
type streamObj struct {
	io.Reader
}

func (o *streamObj) String() string               { return "#<sim-stream>" }
func (o *streamObj) Append(b []byte) []byte       { return append(b, "#<sim-stream>"...) }
func (o *streamObj) Simplify() any                { return "#<sim-stream>" }
func (o *streamObj) Equal(other slip.Object) bool { return o == other }
func (o *streamObj) Hierarchy() []slip.Symbol {
	return []slip.Symbol{slip.InputStreamSymbol, slip.StreamSymbol, slip.TrueSymbol}
}
func (o *streamObj) Eval(s *slip.Scope, depth int) slip.Object { return o }
func (o *streamObj) StreamType() slip.Symbol                   { return slip.InputStreamSymbol }
func (o *streamObj) IsOpen() bool                              { return true }

type seekStreamObj struct {
	streamObj
	sk io.Seeker
}

func (o *seekStreamObj) Seek(offset int64, whence int) (int64, error) {
	return o.sk.Seek(offset, whence)
}

// ---- outcomes ----

type outcome struct {
	kind  string // objects | partial | condition | go-panic
	class string // condition class / panic text
	depth int
	objs  []string // type and printed form of each object
	raw   []slip.Object
	pos   int
	err   error
}

func (o outcome) String() string {
	switch o.kind {
	case "objects":
		return fmt.Sprintf("objects %v pos=%d", o.objs, o.pos)
	case "partial":
		return fmt.Sprintf("incomplete (depth %d)", o.depth)
	default:
		return fmt.Sprintf("%s %s", o.kind, o.class)
	}
}

func describe(objs []slip.Object) []string {
	out := make([]string, len(objs))
	for i, o := range objs {
		out[i] = fmt.Sprintf("%T %s", o, slip.ObjectString(o))
	}
	return out
}

func capture(fn func() ([]slip.Object, int)) (o outcome) {
	defer func() {
		if r := recover(); r != nil {
			if e, ok := r.(error); ok && strings.Contains(e.Error(), errInjected.Error()) {
				// possibly wrapped in a Lisp condition by the evaluator
				o = outcome{kind: "injected-error", err: e}
				return
			}
			switch tr := r.(type) {
			case *slip.PartialPanic:
				o = outcome{kind: "partial", depth: tr.Depth}
			case slip.Object:
				h := tr.Hierarchy()
				cl := "?"
				if len(h) > 0 {
					cl = string(h[0])
				}
				o = outcome{kind: "condition", class: cl}
				if os.Getenv("C02_DEBUG") != "" {
					msg := ""
					if e, ok := r.(error); ok {
						msg = e.Error()
					}
					if in, ok := r.(interface {
						SlotValue(slip.Symbol) (slip.Object, bool)
					}); ok {
						m, _ := in.SlotValue(slip.Symbol("message"))
						msg += " / " + slip.ObjectString(m)
					}
					fmt.Fprintf(os.Stderr, "condition %T %v %s\n", tr, tr, msg)
				}
				if inst, ok := tr.(slip.Instance); ok {
					if msg, has := inst.SlotValue(slip.Symbol("message")); has {
						if str, ok := msg.(slip.String); ok && strings.Contains(string(str), errInjected.Error()) {
							// the evaluator wrapped the Go error in a Lisp condition
							o = outcome{kind: "injected-error", class: cl}
						}
					}
				}
			case wireError:
				// ReadWireMessage reports every failure as an error value
				if errors.Is(tr.error, errInjected) || strings.Contains(tr.Error(), errInjected.Error()) {
					o = outcome{kind: "injected-error", err: tr}
				} else {
					o = outcome{kind: "condition", class: "wire-error"}
				}
			case error:
				if errors.Is(tr, errInjected) {
					o = outcome{kind: "injected-error", err: tr}
				} else {
					o = outcome{kind: "go-panic", class: fmt.Sprintf("%T: %v", r, r)}
				}
			default:
				o = outcome{kind: "go-panic", class: fmt.Sprintf("%T: %v", r, r)}
			}
		}
	}()
	objs, pos := fn()
	return outcome{kind: "objects", objs: describe(objs), raw: objs, pos: pos}
}

func sameObjects(a, b outcome) bool {
	if len(a.objs) != len(b.objs) {
		return false
	}
	for i := range a.objs {
		if a.objs[i] != b.objs[i] {
			return false
		}
		if !slip.ObjectEqual(a.raw[i], b.raw[i]) {
			// Equal is not reflexive for every type (functions built by the
			// reader); fall back to the printed form compared above.
			if !slip.ObjectEqual(a.raw[i], a.raw[i]) {
				continue
			}
			return false
		}
	}
	return true
}

type wireError struct{ error }

type collector struct{ objs []slip.Object }

func (c *collector) Call(s *slip.Scope, args slip.List, depth int) slip.Object {
	c.objs = append(c.objs, args[0])
	return nil
}

var fronts = []string{"ReadStream", "ReadStreamOne", "ReadStreamEach", "ReadStreamPush", "cl:read-seek", "cl:read-all-seek", "cl:read-all-nonseek", "cl:peek+read-nonseek-safe", "swank:wire", "gi:read-each", "gi:read-push", "cl:load-stream", "cl:read-from-string"}

func scopeFor(c *Case) *slip.Scope {
	s := slip.NewScope()
	s.Let("*read-base*", slip.Fixnum(c.ReadBase))
	s.Let("*read-default-float-format*", slip.Symbol(c.FloatFmt))
	return s
}

// reference computes what the text denotes for a front end.
func reference(c *Case, front string) outcome {
	s := scopeFor(c)
	if front == "cl:read-from-string" && c.RFSFirst {
		return capture(func() ([]slip.Object, int) {
			code, pos := slip.ReadOne(c.Text, s)
			if len(code) == 0 {
				return nil, 0
			}
			for pos < len(c.Text) && strings.IndexByte(" \n\t\r", c.Text[pos]) >= 0 {
				pos++ // read-from-string skips the white space after the form
			}
			return code[:1], pos
		})
	}
	switch front {
	case "cl:load-stream":
		return capture(func() ([]slip.Object, int) {
			s.Let("sim-loaded", nil)
			slip.ReadString(string(loadWrap(c.Text)), s).Eval(s, nil)
			lst, _ := s.Get("sim-loaded").(slip.List)
			return lst, 0
		})
	case "swank:wire":
		// the framed payload denotes its first object (nil if there is none)
		return capture(func() ([]slip.Object, int) {
			code := slip.Read(c.Text, s)
			if len(code) == 0 {
				return []slip.Object{nil}, 0
			}
			return []slip.Object{code[0]}, 0
		})
	case "ReadStreamOne", "cl:read-seek":
		return capture(func() ([]slip.Object, int) {
			code, pos := slip.ReadOne(c.Text, s)
			return code, pos
		})
	}
	return capture(func() ([]slip.Object, int) {
		return slip.ReadString(string(c.Text), s), 0
	})
}

// canaryText is read after abandoned reads; its tokens are valid in every
// *read-base* the generator uses (2..36) and denote the same kinds of objects.
const canaryText = "gamma-ray (delta 34) \"s\" "

func canary(c *Case, n int) outcome {
	s := scopeFor(c)
	return capture(func() ([]slip.Object, int) {
		switch n % 3 {
		case 1:
			code, _ := slip.ReadStream(strings.NewReader(canaryText), s)
			return code, 0
		case 2:
			code, _ := slip.ReadOne([]byte(canaryText), s)
			rest := slip.ReadString(canaryText[len("gamma-ray"):], s)
			return append(code, rest...), 0
		}
		return slip.ReadString(canaryText, s), 0
	})
}

// loadWrap turns a text into a loadable file: one form that stores the
// objects of the text in sim-loaded.
func loadWrap(text []byte) []byte {
	return append(append([]byte("(setq sim-loaded (quote ("), text...), "\n)))\n"...)
}

func runFront(c *Case, front string, p Plan) (outcome, *source) {
	s := scopeFor(c)
	src := &seekSource{source{data: c.Text, plan: p}}
	var rd io.Reader = &src.source
	o := capture(func() ([]slip.Object, int) {
		switch front {
		case "ReadStream":
			code, _ := slip.ReadStream(rd, s)
			return code, 0
		case "ReadStreamOne":
			code, pos := slip.ReadStream(rd, s, true)
			return code, pos
		case "ReadStreamEach":
			var col collector
			slip.ReadStreamEach(rd, s, &col)
			return col.objs, 0
		case "ReadStreamPush":
			ch := make(chan slip.Object, 4096)
			slip.ReadStreamPush(rd, s, ch)
			close(ch)
			var objs []slip.Object
			for o := range ch {
				objs = append(objs, o)
			}
			return objs, 0
		case "swank:wire":
			// "source text arriving in pieces" once more: a length-prefixed
			// frame read from the simulated byte source
			src.data = append([]byte(fmt.Sprintf("%06X", len(c.Text))), c.Text...)
			obj, err := swank.ReadWireMessage(rd, s)
			if err != nil {
				panic(wireError{err})
			}
			return []slip.Object{obj}, 0
		case "cl:read-from-string":
			// the Lisp face of "one form at a time": each call starts at the
			// position the previous one returned (no stream, no faults)
			s.Let("sim-text", slip.String(c.Text))
			s.Let("sim-eofv", slip.Symbol("sim-eof-marker"))
			code := slip.ReadString("(multiple-value-list (read-from-string sim-text nil sim-eofv :start sim-pos))", slip.NewScope())
			var all []slip.Object
			pos := 0
			nchars := len([]rune(string(c.Text)))
			for i := 0; i < 10000 && pos < nchars; i++ {
				s.Let("sim-pos", slip.Fixnum(pos))
				res, _ := code.Eval(s, nil).(slip.List)
				if len(res) != 2 {
					panic(fmt.Sprintf("read-from-string returned %s", slip.ObjectString(res)))
				}
				if res[0] == slip.Symbol("sim-eof-marker") {
					break
				}
				np, _ := res[1].(slip.Fixnum)
				if int(np) <= pos {
					panic(fmt.Sprintf("read-from-string :start %d returned position %d", pos, np))
				}
				all = append(all, res[0])
				pos = int(np)
				if c.RFSFirst {
					return all, pos
				}
			}
			return all, 0
		case "string:one-at-a-time":
			// the third delivery named by the property: repeated one-form
			// reads of the string, each from the reported end of the last
			var all []slip.Object
			off := 0
			for off < len(c.Text) {
				code, pos := slip.ReadOne(c.Text[off:], s)
				if len(code) == 0 {
					break
				}
				all = append(all, code[0])
				if pos <= 0 {
					panic(fmt.Sprintf("ReadOne reported end position %d", pos))
				}
				off += pos
			}
			return all, 0
		case "cl:read-seek":
			so := &seekStreamObj{streamObj: streamObj{Reader: src}, sk: src}
			s.Let("sim-stream", so)
			v := slip.ReadString("(read sim-stream)", slip.NewScope()).Eval(s, nil)
			return []slip.Object{v}, src.off
		case "cl:load-stream":
			// (load stream): the text is wrapped into one form that stores
			// its objects, unevaluated, in a variable
			src.data = loadWrap(c.Text)
			s.Let("sim-stream", &streamObj{Reader: rd})
			s.Let("sim-loaded", nil)
			slip.ReadString("(load sim-stream)", slip.NewScope()).Eval(s, nil)
			lst, _ := s.Get("sim-loaded").(slip.List)
			return lst, 0
		case "gi:read-each", "gi:read-push":
			s.Let("sim-stream", &streamObj{Reader: rd})
			src := `(let ((acc nil)) (read-each sim-stream (lambda (x) (setq acc (cons x acc)))) (reverse acc))`
			if front == "gi:read-each" && c.Seed%2 == 1 {
				// The function changes the reader variables (bound by the
				// scope of this run) as soon as it is handed the first
				// object: which of the later tokens had been resolved by then
				// depends on the delivery, so the text is read with the
				// settings the call started with - as the whole-string read
				// does (seeded change C02-l2).
				src = `(let ((acc nil)) (read-each sim-stream (lambda (x) (setq *read-base* 16) (setq *read-default-float-format* 'single-float) (setq acc (cons x acc)))) (reverse acc))`
			}
			if front == "gi:read-push" {
				src = `(let ((ch (make-channel 8192)) (acc nil)) (read-push sim-stream ch) (channel-close ch) (range (lambda (x) (setq acc (cons x acc))) ch) (reverse acc))`
			}
			res := slip.ReadString(src, slip.NewScope()).Eval(s, nil)
			lst, _ := res.(slip.List)
			return lst, 0
		case "cl:peek+read-nonseek-safe":
			s.Let("sim-stream", slip.NewInputStream(rd))
			peek := slip.ReadString("(peek-char t sim-stream nil nil)", slip.NewScope())
			code := slip.ReadString("(read sim-stream)", slip.NewScope())
			var all []slip.Object
			for i := 0; i < 10000; i++ {
				if peek.Eval(s, nil) == nil { // skips white space; nil at end of file
					break
				}
				v, eof := readOrEOF(code, s)
				if eof {
					break
				}
				all = append(all, v)
			}
			return all, 0
		case "cl:read-all-seek", "cl:read-all-nonseek":
			if front == "cl:read-all-seek" {
				s.Let("sim-stream", &seekStreamObj{streamObj: streamObj{Reader: src}, sk: src})
			} else {
				// a stream as the interpreter makes them for pipes, sockets and
				// standard input: not seekable, one character of push-back
				s.Let("sim-stream", slip.NewInputStream(rd))
			}
			code := slip.ReadString("(read sim-stream)", slip.NewScope())
			var all []slip.Object
			for i := 0; i < 10000; i++ {
				v, eof := readOrEOF(code, s)
				if eof {
					break
				}
				all = append(all, v)
			}
			return all, src.off
		}
		panic("unknown front end " + front)
	})
	return o, &src.source
}

// readOrEOF evaluates (read stream); an end-of-file condition ends the
// sequence, everything else propagates.
func readOrEOF(code slip.Code, s *slip.Scope) (v slip.Object, eof bool) {
	defer func() {
		if r := recover(); r != nil {
			if o, ok := r.(slip.Object); ok {
				for _, h := range o.Hierarchy() {
					if h == slip.Symbol("end-of-file") {
						eof = true
						return
					}
				}
			}
			panic(r)
		}
	}()
	return code.Eval(s, nil), false
}

func viol(class, f string, a ...any) *harness.Violation {
	return &harness.Violation{Class: class, Detail: fmt.Sprintf(f, a...)}
}

// judge compares a stream outcome with the reference.
func judge(c *Case, front string, p Plan, ref, got outcome) *harness.Violation {
	where := fmt.Sprintf("text %q via %s with plan %+v", c.Show, front, p)
	if p.ErrAfter >= 0 {
		// The error may be hit or not (one-form reads stop early). If the
		// reader saw it, it must surface; objects are acceptable only when
		// they equal the reference (the error lay beyond what was needed).
		switch got.kind {
		case "injected-error":
			return nil
		case "go-panic":
			return viol("host-fault", "%s: %s", where, got.class)
		}
		return nil // judged by the fault-free plans; see errorSurfaces below
	}
	if got.kind == "go-panic" {
		return viol("host-fault", "%s: stream read died with %s (string read: %s)", where, got.class, ref)
	}
	if strings.HasPrefix(front, "cl:") || strings.HasPrefix(front, "gi:") || front == "swank:wire" {
		// Through the evaluator a Go-level PartialPanic arrives wrapped in an
		// error condition, and a text without any object is an end-of-file
		// condition for (read): "reported as not readable" is one class here.
		failed := func(o outcome) bool {
			return o.kind == "partial" || o.kind == "condition" || (o.kind == "objects" && len(o.objs) == 0 && front == "cl:read-seek")
		}
		if failed(ref) || failed(got) {
			if failed(ref) && failed(got) {
				return nil
			}
			if front == "cl:read-all-seek" && failed(ref) && got.kind == "objects" {
				// forms before the broken one were returned by earlier
				// reads; the sequence ends with the failure, which capture
				// reports instead of the objects. So objects here means the
				// failure was not reported.
			}
			return viol("outcome-class", "%s: string read gives %s but the stream read gives %s", where, ref, got)
		}
	}
	if ref.kind != got.kind {
		return viol("outcome-class", "%s: string read gives %s but the stream read gives %s", where, ref, got)
	}
	switch ref.kind {
	case "objects":
		if !sameObjects(ref, got) {
			return viol("objects-differ", "%s: string read gives %v but the stream read gives %v", where, ref.objs, got.objs)
		}
		if (front == "ReadStreamOne" || front == "cl:read-seek" || (front == "cl:read-from-string" && c.RFSFirst)) && ref.pos != got.pos {
			return viol("position", "%s: the form ends at %d but the stream read reports %d", where, ref.pos, got.pos)
		}
	case "partial":
		if ref.depth != got.depth {
			return viol("partial-depth", "%s: string read is incomplete at depth %d, stream read at depth %d", where, ref.depth, got.depth)
		}
	case "condition":
		if ref.class != got.class {
			return viol("condition-class", "%s: string read signals %s, stream read %s", where, ref.class, got.class)
		}
	}
	return nil
}

func isASCII(b []byte) bool {
	for _, c := range b {
		if c >= 0x80 {
			return false
		}
	}
	return true
}

func contains(xs []string, x string) bool {
	for _, y := range xs {
		if x == y {
			return true
		}
	}
	return false
}

func planKey(front string, p Plan) string {
	return fmt.Sprintf("%s|%v|%v|%v|%d", front, p.Sizes, p.Cycle, p.EOFWithData, p.ErrAfter)
}

func plansFor(c *Case) []Plan {
	n := len(c.Text)
	var ps []Plan
	ps = append(ps, Plan{ErrAfter: -1}, Plan{ErrAfter: -1, EOFWithData: true})
	if n <= 4096 {
		for cut := 1; cut < n; cut++ {
			ps = append(ps, Plan{Sizes: []int{cut}, ErrAfter: -1, EOFWithData: cut%2 == 0})
		}
	} else {
		for _, cut := range []int{65535, 65536, 65537} {
			if cut < n {
				ps = append(ps, Plan{Sizes: []int{cut}, ErrAfter: -1})
			}
		}
	}
	for k := 1; k <= 8; k++ {
		if n > 20000 && k < 8 {
			continue
		}
		ps = append(ps, Plan{Sizes: []int{k}, Cycle: true, ErrAfter: -1, EOFWithData: k%2 == 1})
	}
	ps = append(ps, Plan{Sizes: []int{4095}, Cycle: true, ErrAfter: -1}, Plan{Sizes: []int{4096}, Cycle: true, ErrAfter: -1})
	r := tape.NewRand(c.Seed)
	for i := 0; i < 12 && n > 1 && n <= 4096; i++ {
		var sizes []int
		for left := n; left > 0; {
			k := 1 + r.Intn(1+n/2)
			if r.Pct(30) {
				k = 1 + r.Intn(3)
			}
			if c.Zero && r.Pct(15) {
				sizes = append(sizes, 0)
			}
			sizes = append(sizes, k)
			left -= k
		}
		ps = append(ps, Plan{Sizes: sizes, ErrAfter: -1, EOFWithData: r.Pct(50)})
	}
	if c.Zero && n > 0 && n <= 4096 {
		for i := 0; i < 3; i++ {
			ps = append(ps, Plan{Sizes: []int{1 + r.Intn(n)}, ErrAfter: r.Intn(n + 1)})
		}
	}
	return ps
}

func (e *engine) Execute(raw json.RawMessage) (vd harness.Verdict) {
	var c Case
	if err := json.Unmarshal(raw, &c); err != nil {
		panic(err)
	}
	if c.Conc != nil {
		return e.concurrent(&c)
	}
	vd.Faults = map[string]int{}
	vd.Probes = map[string]int{}
	refs := map[string]outcome{}
	defer func() { refs = nil }()
	for _, f := range append([]string{"string:one-at-a-time"}, fronts...) {
		if f == "cl:read-from-string" && !utf8.Valid(c.Text) {
			continue
		}
		refs[f] = reference(&c, f)
	}
	if refs["ReadStream"].kind == "go-panic" {
		// the whole-string read itself faults: that is C09's business, there
		// is no reference to compare a delivery with
		vd.Probes["reference_host_fault"]++
		return
	}
	vd.Probes["ref_"+refs["ReadStream"].kind]++
	if c.MustFail {
		vd.Probes["cut_inside_form"]++
		if ref := refs["ReadStream"]; ref.kind == "objects" && c.Pin == nil {
			vd.V = viol("truncation-accepted", "the text %q stops inside a form but the whole-string read silently returns %v", c.Show, ref.objs)
			return
		}
	}
	// The end of the text delimits a token like white space does: a text that
	// reads as objects and the same text with a line end appended - which
	// reads as objects too - denote the same objects. (An absolute rule, like
	// the truncation rule above: the differential oracle cannot see a token
	// that every front end drops. Found on the unchanged tree: a bit vector
	// as the last token of a text, "a #*10", was silently left out.)
	if ref := refs["ReadStream"]; ref.kind == "objects" && c.Pin == nil {
		s := scopeFor(&c)
		padded := capture(func() ([]slip.Object, int) {
			return slip.ReadString(string(c.Text)+"\n", s), 0
		})
		vd.Probes["eof_delimiter_compared"]++
		if padded.kind == "objects" && !sameObjects(ref, padded) {
			vd.V = viol("eof-delimiter", "the text %q reads as %v, with a line end appended as %v: the end of the text does not delimit its last token", c.Show, ref.objs, padded.objs)
			return
		}
	}
	canRef := canary(&c, 0)
	textHash := fnv.New64a()
	_, _ = textHash.Write(c.Text)
	th := textHash.Sum64()
	run := func(front string, p Plan) *harness.Violation {
		ref := refs[front]
		if ref.kind == "go-panic" {
			return nil
		}
		if front == "cl:load-stream" && c.ReadBase != 10 {
			return nil // the wrapper's own symbols would be read as numbers
		}
		if front == "cl:peek+read-nonseek-safe" {
			// The part of the non-seekable cl:read path that works (see known
			// finding C02-read-nonseekable): texts without the characters
			// after which the reader reports a text that merely stops too
			// early as a parse error instead of as incomplete - the escape
			// character, the bar of |symbols|, # dispatches and the comma -
			// on which reading byte by byte cannot work. Everything else is
			// in: tokens ended by a delimiter that has to be handed back,
			// zero-length reads, data delivered together with EOF, texts cut
			// inside a form. Each read is preceded by a peek-char, so the
			// stream's one-character push-back is exercised twice over.
			// (Until fix "a text that ends after an escape character ... is
			// reported as incomplete" this front ran only on texts without
			// the escape character, the bar, # and the comma.)
			if p.ErrAfter >= 0 {
				return nil
			}
		}
		got, src := runFront(&c, front, p)
		vd.Evals++
		vd.Faults["short_read"] += src.short
		vd.Faults["zero_read"] += src.zero
		vd.Faults["eof_with_data"] += src.eofData
		vd.Faults["read_error"] += src.errFired
		if src.short > 0 {
			vd.Faults["cut"]++
		}
		if src.short > 0 || src.zero > 0 || src.errFired > 0 || src.eofData > 0 {
			h := fnv.New64a()
			_, _ = h.Write([]byte(planKey(front, p)))
			vd.Hashes = append(vd.Hashes, h.Sum64()^th)
		}
		if got.kind != "objects" || src.errFired > 0 || vd.Evals%8 == 0 {
			// History independence: what a text denotes must not depend on
			// the reads that came before it - in particular not on a read
			// that was abandoned in the middle of a token (error, parse
			// condition, incomplete text). A fixed canary text is read right
			// after such a read, alternately as a string and as a stream.
			vd.Probes["canary_reads"]++
			if cg := canary(&c, vd.Probes["canary_reads"]); !(cg.kind == canRef.kind && sameObjects(cg, canRef)) {
				return viol("history-dependence", "text %q via %s with plan %+v ended with %s; the next read, of %q, then gave %s instead of %s",
					c.Show, front, p, got, canaryText, cg, canRef)
			}
		}
		if p.ErrAfter >= 0 && src.errFired > 0 && got.kind != "injected-error" && got.kind != "go-panic" {
			// the reader was handed the error: it may only be ignored if
			// what was read before it is exactly the reference (one-form
			// reads that already had their form)
			if !(got.kind == "objects" && ref.kind == "objects" && sameObjects(ref, got)) {
				return viol("error-swallowed", "text %q via %s with plan %+v: the source failed after %d bytes but the read returned %s",
					c.Show, front, p, p.ErrAfter, got)
			}
		}
		return judge(&c, front, p, ref, got)
	}
	if c.Pin != nil {
		vd.V = run(c.Pin.Front, c.Pin.Plan)
		return
	}
	// zero-fault baselines: the string read one form at a time, through
	// the Go API and through cl:read-from-string
	for _, zf := range []string{"string:one-at-a-time", "cl:read-from-string"} {
		if skip0 := contains(c.SkipFronts, zf); skip0 {
			continue
		}
		if zf == "cl:read-from-string" && c.RFSAscii && !isASCII(c.Text) {
			continue
		}
		if v := run(zf, Plan{ErrAfter: -1}); v != nil {
			pinned := c
			pinned.Pin = &Pin{Front: zf, Plan: Plan{ErrAfter: -1}}
			vd.Pinned, _ = json.Marshal(pinned)
			vd.V = v
			return
		}
	}
	skip := map[string]bool{}
	for _, f := range c.SkipFronts {
		skip[f] = true
	}
	for _, p := range plansFor(&c) {
		for _, f := range fronts {
			if skip[f] || f == "cl:read-from-string" {
				continue
			}
			if v := run(f, p); v != nil {
				pinned := c
				pinned.Pin = &Pin{Front: f, Plan: p}
				vd.Pinned, _ = json.Marshal(pinned)
				vd.V = v
				return
			}
		}
	}
	return
}

// ---- shrinking ----

func (e *engine) Shrink(raw json.RawMessage) (out []json.RawMessage) {
	var c Case
	_ = json.Unmarshal(raw, &c)
	emit := func(n Case) {
		n.Show = string(n.Text)
		b, _ := json.Marshal(n)
		out = append(out, b)
	}
	unpin := func(n Case) Case {
		// after changing the text the plan is searched again
		if n.Pin != nil {
			f := n.Pin.Front
			_ = f
			n.Pin = nil
		}
		return n
	}
	t := c.Text
	// drop chunks of the text (not of a text the generator knows to be cut
	// inside a form: that knowledge does not carry over to another text)
	for size := len(t) / 2; size >= 1 && !c.MustFail; size /= 2 {
		for lo := 0; lo+size <= len(t); lo += size {
			n := unpin(c)
			n.Text = append(append([]byte{}, t[:lo]...), t[lo+size:]...)
			emit(n)
		}
	}
	if c.ReadBase != 10 {
		n := unpin(c)
		n.ReadBase = 10
		emit(n)
	}
	if c.FloatFmt != "double-float" {
		n := unpin(c)
		n.FloatFmt = "double-float"
		emit(n)
	}
	if c.Pin != nil {
		p := c.Pin.Plan
		if len(p.Sizes) > 1 {
			for i := range p.Sizes {
				n := c
				np := p
				np.Sizes = append(append([]int{}, p.Sizes[:i]...), p.Sizes[i+1:]...)
				n.Pin = &Pin{Front: c.Pin.Front, Plan: np}
				emit(n)
			}
		}
		if p.EOFWithData {
			n := c
			np := p
			np.EOFWithData = false
			n.Pin = &Pin{Front: c.Pin.Front, Plan: np}
			emit(n)
		}
	}
	return
}

func (e *engine) Matches(raw json.RawMessage, v *harness.Violation, f harness.Finding) bool {
	var c Case
	_ = json.Unmarshal(raw, &c)
	ok := false
	for _, cl := range strings.Split(f.Class, "|") {
		if cl == v.Class {
			ok = true
		}
	}
	if !ok {
		return false
	}
	switch {
	case f.Trigger == "":
		return true
	case f.Trigger == "rfs-start":
		if c.Pin == nil || c.Pin.Front != "cl:read-from-string" || c.RFSFirst {
			return false
		}
		code := func() (n int) {
			defer func() { _ = recover() }()
			return len(slip.ReadString(string(c.Text), slip.NewScope()))
		}()
		return code != 1
	case f.Trigger == "rfs-nonascii":
		return c.Pin != nil && c.Pin.Front == "cl:read-from-string" && !isASCII(c.Text)
	case f.Trigger == "zero-read":
		if c.Pin == nil {
			return false
		}
		for _, k := range c.Pin.Plan.Sizes {
			if k == 0 {
				return true
			}
		}
		return false
	case strings.HasPrefix(f.Trigger, "front:"):
		return c.Pin != nil && c.Pin.Front == strings.TrimPrefix(f.Trigger, "front:")
	}
	return false
}
