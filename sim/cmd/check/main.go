// Command check is the driver behind /verif/check: it instruments the
// current /repo working tree, builds the simulation binary, fans the seeded
// cases out over worker processes, minimises and replays every failure in a
// fresh process, separates known findings from new violations, writes the
// evidence file and sets the exit status (0 held, 1 violation, 2 harness
// trouble).
package main

import (
	"bytes"
	"encoding/json"
	"flag"
	"fmt"
	"os"
	"os/exec"
	"path/filepath"
	"regexp"
	"sort"
	"strconv"
	"strings"
	"sync"
	"time"

	"verif/sim/harness"
)

var verifDir = "/verif"

type evidence struct {
	PropertyID  string         `json:"property_id"`
	Tier        string         `json:"tier"`
	Seed        int64          `json:"seed"`
	Level       string         `json:"level"`
	Coverage    map[string]any `json:"coverage"`
	Assumptions []string       `json:"assumptions"`
	WallS       float64        `json:"wall_s"`
	Violations  int            `json:"violations"`
}

func trouble(f string, a ...any) {
	fmt.Fprintf(os.Stderr, "check: "+f+"\n", a...)
	os.Exit(2)
}

func run(dir string, env []string, out *bytes.Buffer, name string, args ...string) (int, error) {
	cmd := exec.Command(name, args...)
	cmd.Dir = dir
	cmd.Env = append(os.Environ(), env...)
	if out != nil {
		cmd.Stdout = out
		cmd.Stderr = out
	}
	err := cmd.Run()
	if ee, ok := err.(*exec.ExitError); ok {
		return ee.ExitCode(), nil
	}
	if err != nil {
		return -1, err
	}
	return 0, nil
}

func readJSON(path string, v any) error {
	b, err := os.ReadFile(path)
	if err != nil {
		return err
	}
	return json.Unmarshal(b, v)
}

func main() {
	tier := flag.String("tier", "", "quick|thorough")
	replayFile := flag.String("replay", "", "replay file")
	workers := flag.Int("workers", 16, "worker processes")
	cases := flag.Int("cases", 0, "override the number of cases")
	keep := flag.Bool("keep", false, "keep the work directory")
	replace := flag.String("replace", "", "repoRelPath=file,... (mutant files, passed to the instrumenter)")
	noEvidence := flag.Bool("no-evidence", false, "do not write the evidence file (self-tests)")
	replaysFlag := flag.String("replays", "", "directory for replay files (default <verif>/replays)")
	// allow "check C20 --tier quick": property id first
	if len(os.Args) < 2 {
		trouble("usage: check <property> [--tier quick|thorough] [--replay file]")
	}
	if d := os.Getenv("VERIF_DIR"); d != "" {
		verifDir = d
	}
	prop := strings.ToUpper(os.Args[1])
	_ = flag.CommandLine.Parse(os.Args[2:])
	if *tier == "" {
		*tier = os.Getenv("VERIF_TIER")
	}
	if *tier == "" {
		*tier = "quick"
	}
	seed := int64(1)
	if s := os.Getenv("VERIF_SEED"); s != "" {
		if n, err := strconv.ParseInt(s, 10, 64); err == nil {
			seed = n
		}
	}
	start := time.Now()

	root := "/dev/shm"
	if fi, err := os.Stat(root); err != nil || !fi.IsDir() {
		root = os.TempDir()
	}
	work, err := os.MkdirTemp(root, "verif-check-")
	if err != nil {
		trouble("%v", err)
	}
	if !*keep {
		defer os.RemoveAll(work)
	}
	exit := func(code int) {
		if !*keep {
			os.RemoveAll(work)
		}
		os.Exit(code)
	}

	// 1. instrument + build from the current working tree
	var blog bytes.Buffer
	env := []string{}
	if *replace != "" {
		env = append(env, "REPLACE="+*replace)
	}
	if rc, err := run(verifDir, env, &blog, filepath.Join(verifDir, "sim", "build.sh"), work); rc != 0 || err != nil {
		fmt.Fprint(os.Stderr, blog.String())
		fmt.Fprintf(os.Stderr, "check: build failed (rc=%d err=%v)\n", rc, err)
		exit(2)
	}
	bin := filepath.Join(work, "verif-sim")
	findings := filepath.Join(verifDir, "known_findings.json")

	// Every simulation process runs under a wall-clock watchdog: an
	// instrumented construct the simulator does not own (a real block) must
	// end as harness trouble (exit 2), never as a hang.
	sim := func(out *bytes.Buffer, args ...string) int {
		cmd := exec.Command(bin, args...)
		cmd.Dir = work
		if out != nil {
			cmd.Stdout = out
			cmd.Stderr = out
		}
		if err := cmd.Start(); err != nil {
			trouble("cannot run verif-sim: %v", err)
		}
		done := make(chan error, 1)
		go func() { done <- cmd.Wait() }()
		select {
		case err := <-done:
			if ee, ok := err.(*exec.ExitError); ok {
				return ee.ExitCode()
			}
			if err != nil {
				trouble("verif-sim: %v", err)
			}
			return 0
		case <-time.After(4 * time.Minute):
			_ = cmd.Process.Kill()
			fmt.Fprintf(os.Stderr, "check: verif-sim %v did not finish within 4 minutes (a real block outside the simulator?)\n", args)
			if len(args) > 1 && args[1] == "shrink" {
				return 98 // counted as inconclusive by the caller
			}
			exit(2)
		}
		return 2
	}

	if prop == "SELFTEST" {
		exit(selftest(work, bin, findings, *cases))
	}

	replayDir := filepath.Join(verifDir, "replays")
	if *replaysFlag != "" {
		replayDir = *replaysFlag
	}

	// 2. replay mode
	if *replayFile != "" {
		var out bytes.Buffer
		p, _ := filepath.Abs(*replayFile)
		rc := sim(&out, prop, "replay", "-case", p)
		fmt.Print(out.String())
		switch rc {
		case 0:
			exit(0)
		case 1, 3:
			fmt.Printf("VIOLATION property=%s replay=%s\n", prop, p)
			exit(1)
		}
		exit(2)
	}

	var meta harness.Meta
	{
		var out bytes.Buffer
		mp := filepath.Join(work, "meta.json")
		if rc := sim(&out, prop, "meta", "-out", mp); rc != 0 {
			fmt.Fprint(os.Stderr, out.String())
			exit(2)
		}
		if err := readJSON(mp, &meta); err != nil {
			trouble("%v", err)
		}
	}

	// 3. known findings: confirm each listed one still reproduces
	var known []harness.Finding
	_ = readJSON(findings, &known)
	var confirmed []harness.ConfirmResult
	{
		var out bytes.Buffer
		cp := filepath.Join(work, "confirm.json")
		if rc := sim(&out, prop, "confirm", "-findings", findings, "-out", cp); rc != 0 {
			fmt.Fprint(os.Stderr, out.String())
			trouble("confirm step failed")
		}
		_ = readJSON(cp, &confirmed)
	}
	printedKnown := map[string]bool{}
	var knownLines []string
	violations := 0
	var violationLines []string
	for _, cr := range confirmed {
		for _, f := range known {
			if f.ID != cr.ID || !strings.EqualFold(f.Property, prop) {
				continue
			}
			if f.Status == "finding" && cr.Reproduced {
				line := fmt.Sprintf("KNOWN-FINDING: property=%s %s: %s", prop, f.ID, f.What)
				if !printedKnown[f.ID] {
					printedKnown[f.ID] = true
					knownLines = append(knownLines, line)
				}
			}
			if f.Status == "fixed" && cr.Reproduced {
				// a repaired defect came back
				_ = os.MkdirAll(replayDir, 0o755)
				rp := filepath.Join(replayDir, fmt.Sprintf("%s-regressed-%s.json", prop, f.ID))
				b, _ := json.MarshalIndent(harness.Replay{Property: prop, Case: f.Confirm,
					Violation: harness.Violation{Class: cr.Class, Detail: cr.Detail}, Note: "regression of fixed finding " + f.ID}, "", " ")
				_ = os.WriteFile(rp, b, 0o644)
				violations++
				violationLines = append(violationLines, fmt.Sprintf("VIOLATION property=%s replay=%s", prop, rp))
			}
		}
	}

	// 4. fan out
	n := meta.QuickCases
	deadline := 150 * time.Second
	if *tier == "thorough" {
		n = meta.ThoroughCases
		deadline = 25 * time.Minute
	}
	if *cases > 0 {
		n = *cases
	}
	w := *workers
	if w > n {
		w = n
	}
	results := make([]harness.WorkerResult, w)
	logs := make([]bytes.Buffer, w)
	rcs := make([]int, w)
	var wg sync.WaitGroup
	for i := 0; i < w; i++ {
		wg.Add(1)
		go func(i int) {
			defer wg.Done()
			from, to := i*n/w, (i+1)*n/w
			out := filepath.Join(work, fmt.Sprintf("w%d.json", i))
			cmd := exec.Command(bin, prop, "worker", "-seed", fmt.Sprint(seed), "-from", fmt.Sprint(from), "-to", fmt.Sprint(to),
				"-tier", *tier, "-out", out, "-findings", findings, "-deadline", deadline.String())
			cmd.Dir = work
			cmd.Stdout = &logs[i]
			cmd.Stderr = &logs[i]
			done := make(chan error, 1)
			if err := cmd.Start(); err != nil {
				rcs[i] = -1
				return
			}
			go func() { done <- cmd.Wait() }()
			select {
			case err := <-done:
				if err != nil {
					rcs[i] = 1
				}
			case <-time.After(deadline + 5*time.Minute):
				_ = cmd.Process.Kill()
				rcs[i] = -2
				return
			}
			if err := readJSON(out, &results[i]); err != nil {
				rcs[i] = -3
			}
		}(i)
	}
	wg.Wait()
	for i := range rcs {
		if rcs[i] != 0 {
			tail := logs[i].String()
			if len(tail) > 4000 {
				tail = tail[len(tail)-4000:]
			}
			fmt.Fprintf(os.Stderr, "check: worker %d failed (rc=%d):\n%s\n", i, rcs[i], tail)
			exit(2)
		}
	}

	// 5. merge
	tot := harness.WorkerResult{Faults: map[string]int{}, Probes: map[string]int{}, Extra: map[string]int{}}
	hashes := map[uint64]bool{}
	var samples []json.RawMessage
	var failures []harness.Failure
	for _, r := range results {
		tot.Cases += r.Cases
		tot.Evals += r.Evals
		tot.SimTimeS += r.SimTimeS
		tot.Steps += r.Steps
		for k, v := range r.Faults {
			tot.Faults[k] += v
		}
		for k, v := range r.Probes {
			tot.Probes[k] += v
		}
		for k, v := range r.Extra {
			tot.Extra[k] += v
		}
		for _, h := range r.Hashes {
			hashes[h] = true
		}
		if len(samples) < 3 && len(r.Samples) > 0 {
			samples = append(samples, r.Samples[0])
		}
		failures = append(failures, r.Failures...)
	}
	sort.Slice(failures, func(i, j int) bool { return failures[i].Index < failures[j].Index })

	// 6. minimise, replay in a fresh process, classify
	inconclusive := 0
	handled := 0
	seenSig := map[string]bool{}
	for _, f := range failures {
		if handled >= 6 {
			break
		}
		handled++
		fp := filepath.Join(work, fmt.Sprintf("fail%d.json", f.Index))
		mp := filepath.Join(work, fmt.Sprintf("min%d.json", f.Index))
		b, _ := json.Marshal(harness.Replay{Property: prop, Seed: uint64(seed), Index: f.Index, Case: f.Case, Violation: f.Violation})
		_ = os.WriteFile(fp, b, 0o644)
		var out bytes.Buffer
		if rc := sim(&out, prop, "shrink", "-case", fp, "-out", mp, "-budget", "45s"); rc != 0 {
			fmt.Fprintf(os.Stderr, "check: failure of case %d (%s) did not reproduce when re-executed for minimisation:\n%s\n",
				f.Index, f.Violation.Class, out.String())
			inconclusive++
			continue
		}
		out.Reset()
		rc := sim(&out, prop, "replay", "-case", mp)
		if rc != 1 {
			fmt.Fprintf(os.Stderr, "check: minimised case %d does not replay in a fresh process (rc=%d): %s\n", f.Index, rc, out.String())
			inconclusive++
			continue
		}
		// known finding?
		out.Reset()
		mo := filepath.Join(work, fmt.Sprintf("match%d.json", f.Index))
		sim(&out, prop, "match", "-case", mp, "-findings", findings, "-out", mo)
		var m map[string]string
		_ = readJSON(mo, &m)
		if id := m["finding"]; id != "" {
			if !printedKnown[id] {
				printedKnown[id] = true
				for _, kf := range known {
					if kf.ID == id {
						knownLines = append(knownLines, fmt.Sprintf("KNOWN-FINDING: property=%s %s: %s", prop, kf.ID, kf.What))
					}
				}
			}
			continue
		}
		var rp harness.Replay
		_ = readJSON(mp, &rp)
		sig := rp.Violation.Class
		if seenSig[sig] && violations >= 3 {
			continue
		}
		seenSig[sig] = true
		_ = os.MkdirAll(replayDir, 0o755)
		dst := filepath.Join(replayDir, fmt.Sprintf("%s-%s-seed%d-case%d.json", prop, rp.Violation.Class, seed, f.Index))
		mb, _ := os.ReadFile(mp)
		_ = os.WriteFile(dst, mb, 0o644)
		violations++
		violationLines = append(violationLines, fmt.Sprintf("VIOLATION property=%s replay=%s", prop, dst))
		fmt.Fprintf(os.Stderr, "check: %s: %s\n", rp.Violation.Class, rp.Violation.Detail)
	}

	// 6b. auxiliary race sweep (C17, thorough tier): runtime monitoring of
	// the same programs on the real runtime under -race. Never gating.
	var raceSweep map[string]any
	if prop == "C17" && (*tier == "thorough" || os.Getenv("VERIF_RACE") != "") {
		raceSweep = runRaceSweep(work)
	}

	wall := time.Since(start).Seconds()
	// 7. evidence
	if !*noEvidence {
		var sampleVals []any
		for _, s := range samples {
			var v any
			_ = json.Unmarshal(s, &v)
			sampleVals = append(sampleVals, v)
		}
		kc := []string{}
		for id := range printedKnown {
			kc = append(kc, id)
		}
		sort.Strings(kc)
		var instr map[string]int
		_ = readJSON(filepath.Join(work, "ov", "instrument-stats.json"), &instr)
		cov := map[string]any{
			"evaluations":              tot.Evals,
			"distinct_nontrivial":      len(hashes),
			"rule":                     meta.Rule,
			"samples":                  sampleVals,
			"cases":                    tot.Cases,
			"seeds":                    fmt.Sprintf("VERIF_SEED=%d, case indices 0..%d", seed, n-1),
			"runs_per_hour":            int(float64(tot.Evals) / wall * 3600),
			"simulated_time_s":         tot.SimTimeS,
			"scheduler_steps":          tot.Steps,
			"faults_fired":             tot.Faults,
			"fault_kinds":              meta.FaultKinds,
			"probes":                   tot.Probes,
			"extra":                    tot.Extra,
			"inconclusive":             inconclusive,
			"known_findings_confirmed": kc,
			"components":               map[string]any{"real": meta.Real, "stub": meta.Stub},
			"instrumentation":          instr,
			"workers":                  w,
		}
		if raceSweep != nil {
			cov["auxiliary_race_sweep"] = raceSweep
		}
		ev := evidence{PropertyID: prop, Tier: *tier, Seed: seed, Level: meta.Level, Coverage: cov,
			Assumptions: meta.Assumptions, WallS: wall, Violations: violations}
		b, _ := json.MarshalIndent(ev, "", " ")
		_ = os.MkdirAll(filepath.Join(verifDir, "evidence"), 0o755)
		if err := os.WriteFile(filepath.Join(verifDir, "evidence", prop+".json"), b, 0o644); err != nil {
			trouble("%v", err)
		}
	}
	for _, l := range knownLines {
		fmt.Println(l)
	}
	for _, l := range violationLines {
		fmt.Println(l)
	}
	fmt.Printf("check %s tier=%s seed=%d: cases=%d simulated_runs=%d distinct=%d violations=%d known=%d inconclusive=%d wall=%.1fs\n",
		prop, *tier, seed, tot.Cases, tot.Evals, len(hashes), violations, len(printedKnown), inconclusive, wall)
	if violations > 0 {
		exit(1)
	}
	if inconclusive > 0 {
		exit(2)
	}
	exit(0)
}

// selftest runs the conformance self-test of the simulator's model pieces
// and the determinism self-test: the same cases executed in many processes,
// with different chunkings of the case range and different GOMAXPROCS, must
// produce identical per-case digests. Exit 0 or 2, never 1.
func selftest(work, bin, findings string, n int) int {
	if n <= 0 {
		n = 48
	}
	report := map[string]any{}
	ok := true
	{
		var out bytes.Buffer
		cmd := exec.Command(bin, "conformance", "300")
		cmd.Dir = work
		cmd.Stdout = &out
		cmd.Stderr = os.Stderr
		err := cmd.Run()
		var res any
		_ = json.Unmarshal(out.Bytes(), &res)
		report["conformance"] = res
		if err != nil {
			fmt.Fprintln(os.Stderr, "selftest: conformance FAILED")
			ok = false
		}
	}
	type variant struct {
		procs  int
		chunks int
	}
	variants := []variant{{1, 1}, {4, 3}, {16, 8}, {2, n}} // the last one: one process per case
	det := map[string]any{}
	for _, prop := range []string{"C02", "C07", "C10", "C17", "C20"} {
		ref := map[int]string{}
		procs, mismatches := 0, 0
		for vi, v := range variants {
			for ch := 0; ch < v.chunks; ch++ {
				from, to := ch*n/v.chunks, (ch+1)*n/v.chunks
				if from == to {
					continue
				}
				if v.chunks == n && ch%4 != 0 { // single-case processes: every 4th case
					continue
				}
				out := filepath.Join(work, fmt.Sprintf("st-%s-%d-%d.json", prop, vi, ch))
				cmd := exec.Command(bin, prop, "worker", "-seed", "7", "-from", fmt.Sprint(from), "-to", fmt.Sprint(to),
					"-out", out, "-findings", findings, "-digests", "-maxfail", "1000000")
				cmd.Dir = work
				cmd.Env = append(os.Environ(), fmt.Sprintf("GOMAXPROCS=%d", v.procs))
				if err := cmd.Run(); err != nil {
					fmt.Fprintf(os.Stderr, "selftest: %s worker failed: %v\n", prop, err)
					ok = false
					continue
				}
				procs++
				var r harness.WorkerResult
				if err := readJSON(out, &r); err != nil {
					ok = false
					continue
				}
				for i, d := range r.CaseDigests {
					idx := from + i
					if old, has := ref[idx]; has && old != d {
						mismatches++
						fmt.Fprintf(os.Stderr, "selftest: %s case %d: digest %s vs %s (GOMAXPROCS=%d chunks=%d)\n", prop, idx, old, d, v.procs, v.chunks)
					} else if !has {
						ref[idx] = d
					}
				}
			}
		}
		det[prop] = map[string]int{"cases": len(ref), "processes": procs, "mismatches": mismatches}
		if mismatches > 0 {
			ok = false
		}
		fmt.Printf("selftest determinism %s: %d cases, %d processes, %d mismatches\n", prop, len(ref), procs, mismatches)
	}
	report["determinism"] = det
	report["ok"] = ok
	b, _ := json.MarshalIndent(report, "", " ")
	_ = os.MkdirAll(filepath.Join(verifDir, "selftest"), 0o755)
	_ = os.WriteFile(filepath.Join(verifDir, "selftest", "selftest-report.json"), b, 0o644)
	if !ok {
		fmt.Println("selftest FAILED")
		return 2
	}
	fmt.Println("selftest ok")
	return 0
}

// runRaceSweep builds the simulation binary with -race and runs seeded C17
// programs on the real Go runtime. The race detector's reports naming slip
// frames are summarised; the result is auxiliary information only.
func runRaceSweep(work string) map[string]any {
	res := map[string]any{"note": "runtime monitoring with the Go race detector on the real runtime; not replayable, never produces a VIOLATION"}
	rbin := filepath.Join(work, "verif-sim-race")
	var blog bytes.Buffer
	cmd := exec.Command("go", "build", "-race", "-overlay", filepath.Join(work, "ov", "overlay.json"), "-o", rbin, "./cmd/verif-sim")
	cmd.Dir = filepath.Join(verifDir, "sim")
	cmd.Stdout, cmd.Stderr = &blog, &blog
	if err := cmd.Run(); err != nil {
		res["error"] = "race build failed: " + blog.String()
		return res
	}
	// The Go runtime ends the process at the first "concurrent map" fatal
	// error, so the sweep runs in chunks, each its own process.
	var errb bytes.Buffer
	programs, fatals := 0, map[string]int{}
	for chunk := 0; chunk < 16; chunk++ {
		var out, eb bytes.Buffer
		c := exec.Command(rbin, "racesweep", "40", fmt.Sprint(chunk+1))
		c.Dir = work
		c.Env = append(os.Environ(), "GORACE=halt_on_error=0")
		c.Stdout, c.Stderr = &out, &eb
		done := make(chan error, 1)
		if err := c.Start(); err != nil {
			res["error"] = err.Error()
			return res
		}
		go func() { done <- c.Wait() }()
		select {
		case <-done:
		case <-time.After(3 * time.Minute):
			_ = c.Process.Kill()
		}
		var summary map[string]float64
		if json.Unmarshal(out.Bytes(), &summary) == nil {
			programs += int(summary["programs"])
		}
		es := eb.String()
		errb.WriteString(es)
		if i := strings.Index(es, "fatal error: "); i >= 0 {
			msg := es[i:]
			if j := strings.Index(msg, "\n"); j > 0 {
				msg = msg[:j]
			}
			// first slip frame of the dying goroutine
			rest := es[i:]
			if m := regexp.MustCompile(`github\.com/ohler55/(slip[^\s]*?)\((?:0x|\{|\.\.\.)`).FindStringSubmatch(rest); m != nil {
				msg += " in " + m[1]
			}
			fatals[msg]++
		}
	}
	res["programs_completed"] = programs
	res["process_fatal_errors"] = fatals
	blocks := strings.Split(errb.String(), "WARNING: DATA RACE")
	sigs := map[string]int{}
	for _, b := range blocks[1:] {
		var tops []string
		lines := strings.Split(b, "\n")
		for i := 0; i < len(lines); i++ {
			l := strings.TrimSpace(lines[i])
			if strings.HasPrefix(l, "Write at") || strings.HasPrefix(l, "Read at") || strings.HasPrefix(l, "Previous write at") || strings.HasPrefix(l, "Previous read at") {
				for j := i + 1; j < len(lines) && strings.TrimSpace(lines[j]) != ""; j++ {
					fl := strings.TrimSpace(lines[j])
					if strings.HasPrefix(fl, "github.com/ohler55/slip") && !strings.Contains(fl, "/simrt") && j+1 < len(lines) {
						loc := strings.TrimSpace(lines[j+1])
						if k := strings.Index(loc, " "); k > 0 {
							loc = loc[:k]
						}
						tops = append(tops, strings.TrimSuffix(strings.TrimPrefix(fl, "github.com/ohler55/"), "()")+" "+filepath.Base(loc))
						break
					}
				}
			}
		}
		sort.Strings(tops)
		sigs[strings.Join(tops, " <-> ")]++
	}
	res["race_reports"] = len(blocks) - 1
	res["distinct_access_pairs"] = sigs
	return res
}
