package main

import (
	"fmt"
	"os"
	"strconv"

	"github.com/ohler55/slip"
	_ "github.com/ohler55/slip/pkg"
	"verif/sim/simkit/sched"
	"verif/sim/simkit/tape"
)

func smoke(args []string) int {
	seed := uint64(1)
	if len(args) > 0 {
		n, _ := strconv.Atoi(args[0])
		seed = uint64(n)
	}
	src := `
(let ((c (make-channel 0)) (d (make-channel 4)) (m (make-mutex)) (n 0))
  (run (progn (dotimes (i 5) (channel-push c i)) (channel-close c)))
  (run (progn (range (lambda (x) (with-mutex-lock m (setq n (+ n x))) (channel-push d x)) c) (channel-close d)))
  (let ((acc nil))
    (range (lambda (x) (setq acc (cons x acc))) d)
    (sleep 1.5)
    (select ((time-after 0.5) tm (setq acc (cons 'timeout acc))))
    (list acc n)))
`
	for i := 0; i < 5; i++ {
		tp := tape.New(tape.Mix(seed, uint64(i)))
		s := sched.New(sched.Config{Policy: sched.PolicyRandom, SwitchPct: 50, YieldPct: 100, Budget: 200000}, tp)
		s.KeepLog = true
		var out slip.Object
		scope := slip.NewScope()
		res := s.Run(func() {
			code := slip.ReadString(src, scope)
			out = code.Eval(scope, nil)
		})
		fmt.Printf("run %d: outcome=%v result=%s steps=%d switches=%d sim=%v hash=%x tape=%d stuck=%v panics=%d\n",
			i, res.Outcome, slip.ObjectString(out), s.Stats.Steps, s.Stats.Switches, res.SimDur, s.Hash(), len(tp.Rec), res.Stuck, len(res.Panics))
		for _, p := range res.Panics {
			fmt.Println("  panic:", p.PanicVal)
		}
	}
	_ = os.Stdout
	return 0
}
