package main

import (
	"fmt"
	"os"
)

type engine func(args []string) int

var engines = map[string]engine{}

func main() {
	if len(os.Args) < 2 {
		fmt.Fprintln(os.Stderr, "usage: verif-sim <engine> [flags]")
		os.Exit(2)
	}
	e := engines[os.Args[1]]
	if e == nil {
		fmt.Fprintf(os.Stderr, "verif-sim: unknown engine %q\n", os.Args[1])
		os.Exit(2)
	}
	os.Exit(e(os.Args[2:]))
}
