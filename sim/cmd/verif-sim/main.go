// Command verif-sim is the single simulation binary: every engine (one per
// claimed property) is linked in and selected by its property id.
package main

import (
	"encoding/json"
	"fmt"
	"os"

	_ "verif/sim/engines/c02"
	_ "verif/sim/engines/c07"
	_ "verif/sim/engines/c10"
	"verif/sim/engines/c17"
	_ "verif/sim/engines/c20"
	"verif/sim/harness"
	"verif/sim/simkit/conform"
)

func main() {
	if len(os.Args) > 1 && os.Args[1] == "smoke" {
		os.Exit(smoke(os.Args[2:]))
	}
	if len(os.Args) > 1 && os.Args[1] == "racesweep" {
		n := 200
		if len(os.Args) > 2 {
			fmt.Sscan(os.Args[2], &n)
		}
		out := os.Stdout
		if dn, err := os.OpenFile(os.DevNull, os.O_WRONLY, 0); err == nil {
			os.Stdout = dn
		}
		seed := uint64(1)
		if len(os.Args) > 3 {
			fmt.Sscan(os.Args[3], &seed)
		}
		ran, to, pn := c17.RaceSweep(n, seed)
		fmt.Fprintf(out, "{\"programs\": %d, \"timed_out\": %d, \"routine_panics\": %d}\n", ran, to, pn)
		os.Exit(0)
	}
	if len(os.Args) > 1 && os.Args[1] == "conformance" {
		n := 400
		if len(os.Args) > 2 {
			fmt.Sscan(os.Args[2], &n)
		}
		res, ok := conform.Run(n, 1)
		b, _ := json.MarshalIndent(res, "", " ")
		fmt.Println(string(b))
		if !ok {
			os.Exit(1)
		}
		os.Exit(0)
	}
	// Instrumented code under test may print; results go to files.
	harness.Out = os.Stdout
	if os.Getenv("VERIF_KEEP_STDOUT") == "" {
		if dn, err := os.OpenFile(os.DevNull, os.O_WRONLY, 0); err == nil {
			os.Stdout = dn
		}
	}
	rc := harness.Main(os.Args[1:])
	if rc != 0 && rc != 1 && rc != 3 {
		fmt.Fprintln(os.Stderr, "verif-sim: exit", rc)
	}
	os.Exit(rc)
}
