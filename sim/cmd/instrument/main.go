// Command instrument generates the `go build -overlay` used by every check.
//
// It loads the slip packages from the current working tree (optionally with a
// set of replacement files, used for mutants), rewrites the constructs that
// meet nondeterminism into calls of the simrt / simos seam packages and writes
// the rewritten files plus overlay.json into the output directory. /repo is
// never modified.
package main

import (
	"bytes"
	"encoding/json"
	"flag"
	"fmt"
	"go/ast"
	"go/format"
	"go/parser"
	"go/token"
	"go/types"
	"os"
	"path/filepath"
	"reflect"
	"sort"
	"strconv"
	"strings"

	"golang.org/x/tools/go/ast/astutil"
	"golang.org/x/tools/go/packages"
)

const (
	modPath   = "github.com/ohler55/slip"
	simrtPath = modPath + "/simrt"
	simosPath = modPath + "/simrt/simos"
)

var (
	// Packages whose goroutines, channels, locks and clock reads are routed
	// through simrt (rules R1-R5).
	schedPkgs = map[string]bool{
		modPath:                  true,
		modPath + "/pkg/cl":      true,
		modPath + "/pkg/gi":      true,
		modPath + "/pkg/generic": true,
		modPath + "/pkg/clos":    true,
		modPath + "/pkg/flavors": true,
		modPath + "/pkg/bag":     true,
	}
	// Files whose file-system calls go through simos (rule R6). A key ending
	// in "/" names a whole package directory.
	osFiles = []string{
		"pkg/repl/",
		"pkg/cl/open.go",
		"pkg/cl/with-open-file.go",
		"pkg/cl/close.go",
		"file-stream.go",
	}
	osFuncs = map[string]bool{
		"Open": true, "OpenFile": true, "Create": true, "ReadFile": true, "WriteFile": true,
		"Rename": true, "Remove": true, "Stat": true, "MkdirAll": true,
	}
	fileMethods = map[string]string{"Write": "FWrite", "WriteString": "FWriteString", "Close": "FClose"}
	timeFuncs   = map[string]bool{"Sleep": true, "After": true, "Tick": true, "Now": true, "Since": true}

	// Rule R5: yield points. "entry" = one yield at function entry, "stmts" =
	// a yield before every statement of the body (not inside a range over a
	// map, whose iteration order is not ours).
	yieldFuncs = map[string]string{
		"slip.Function.Eval":              "stmts",
		"slip.Method.Call":                "stmts",
		"slip.Method.InnerCall":           "stmts",
		"slip.WhopLoc.Continue":           "stmts",
		"slip.Lambda.Call":                "stmts",
		"slip.Printer.Append":             "entry",
		"slip.CompileList":                "stmts",
		"slip.ListToFunc":                 "stmts",
		"generic.Aux.Call":                "stmts",
		"generic.Aux.AddMethod":           "stmts",
		"generic.Aux.buildCacheMeth":      "stmts",
		"generic.Aux.updateDefaultCaller": "stmts",
		"generic.addMethodCaller":         "stmts",
		"generic.defGenericMethod":        "stmts",
		"generic.RemoveMethod.Call":       "stmts",
		"gi.WithMutexLock.Call":           "stmts",
		"gi.ChannelPush.Call":             "stmts",
		"gi.Select.Call":                  "stmts",
		"cl.UnwindProtect.Call":           "stmts",
		"cl.WithOpenFile.Call":            "stmts",
		"flavors.Instance.Receive":        "stmts",
		"clos.HasSlots.SetSlotValue":      "stmts",
		"clos.HasSlots.SlotValue":         "stmts",
	}
)

// yieldEverywhere: every function of the packages and files that hold the
// shared tables and the concurrency primitives gets statement-level yields,
// so that a logical race does not need to be in a function somebody thought
// of listing.
func yieldEverywhere(pkgPath, rel string) bool {
	switch pkgPath {
	case modPath + "/pkg/gi", modPath + "/pkg/generic":
		return !strings.HasSuffix(rel, "/logger.go") && !strings.HasSuffix(rel, "/pkg.go")
	case modPath:
		return rel == "package.go" || rel == "scope.go" || rel == "hook.go" || rel == "funcinfo.go" || rel == "printer.go"
	}
	return false
}

// noYieldFuncs are left without yields although their file is in the
// "everywhere" set: their control flow depends on lazily grown process-global
// buffers (Printer.appendTree grows the shared indentation buffer the first
// time a deeper indentation is needed), which would make the number of
// scheduling points of a case depend on what the process did before.
var noYieldFuncs = map[string]bool{
	"slip.Printer.appendTree": true,
}

type overlayJSON struct {
	Replace map[string]string
}

func main() {
	repo := flag.String("repo", "/repo", "slip working tree")
	out := flag.String("out", "", "output directory")
	ovl := flag.String("ovl", "", "directory with files to add to the module (mirrors repo-relative paths)")
	replace := flag.String("replace", "", "comma separated repoRelPath=file pairs: use file's content instead of the tree's (mutants)")
	flag.Parse()
	if *out == "" || *ovl == "" {
		fatal("usage: instrument -out dir -ovl dir [-repo dir] [-replace a=b,...]")
	}
	must(os.MkdirAll(*out, 0o755))

	srcOverlay := map[string][]byte{}
	replaced := map[string]string{}
	if *replace != "" {
		for _, kv := range strings.Split(*replace, ",") {
			k, v, ok := strings.Cut(kv, "=")
			if !ok {
				fatal("bad -replace entry %q", kv)
			}
			b, err := os.ReadFile(v)
			must(err)
			abs := filepath.Join(*repo, k)
			srcOverlay[abs] = b
			replaced[abs] = v
		}
	}
	// Added files (simrt, simos, verif_reset.go) must be visible to the type
	// checker too.
	added := map[string]string{}
	must(filepath.Walk(*ovl, func(p string, fi os.FileInfo, err error) error {
		if err != nil || fi.IsDir() || !strings.HasSuffix(p, ".go") {
			return err
		}
		rel, _ := filepath.Rel(*ovl, p)
		abs := filepath.Join(*repo, rel)
		b, err := os.ReadFile(p)
		if err != nil {
			return err
		}
		srcOverlay[abs] = b
		added[abs] = p
		return nil
	}))

	patterns := []string{"./pkg/repl"}
	for p := range schedPkgs {
		patterns = append(patterns, "."+strings.TrimPrefix(p, modPath))
	}
	sort.Strings(patterns)
	cfg := &packages.Config{
		Mode: packages.NeedName | packages.NeedFiles | packages.NeedCompiledGoFiles | packages.NeedSyntax |
			packages.NeedTypes | packages.NeedTypesInfo | packages.NeedImports | packages.NeedDeps,
		Dir:     *repo,
		Overlay: srcOverlay,
		Env:     os.Environ(),
		ParseFile: func(fset *token.FileSet, filename string, src []byte) (*ast.File, error) {
			return parser.ParseFile(fset, filename, src, parser.ParseComments|parser.SkipObjectResolution)
		},
	}
	pkgs, err := packages.Load(cfg, patterns...)
	must(err)
	nerr := 0
	for _, p := range pkgs {
		for _, e := range p.Errors {
			fmt.Fprintf(os.Stderr, "instrument: %s: %v\n", p.PkgPath, e)
			nerr++
		}
	}
	if nerr > 0 {
		fatal("instrument: %d load errors (does the tree compile?)", nerr)
	}

	ov := overlayJSON{Replace: map[string]string{}}
	for abs, p := range added {
		ov.Replace[abs] = p
	}
	stats := map[string]int{}
	n := 0
	for _, p := range pkgs {
		for i, f := range p.Syntax {
			name := p.CompiledGoFiles[i]
			if _, isAdded := added[name]; isAdded {
				continue
			}
			rel, _ := filepath.Rel(*repo, name)
			rw := &rewriter{pkg: p, file: f, fset: p.Fset, info: p.TypesInfo, rel: rel, stats: stats}
			rw.sched = schedPkgs[p.PkgPath]
			rw.os = matchOSFile(rel)
			if rw.sched && p.PkgPath != modPath {
				rw.fieldProbes = true
				rw.params, rw.stores = pkgParams(p)
			}
			if rw.sched && p.PkgPath == modPath && rootLambdaFiles[filepath.Base(rel)] {
				// the lambda of an :around method / whopper is shared by every
				// effective method it is part of (method.go "Wrap closure
				// write", one of the property's known unsynchronised globals)
				rw.fieldProbes = true
				rw.rootLambda = true
				rw.params, rw.stores = pkgParams(p)
			}
			if !rw.sched && !rw.os {
				if src, ok := replaced[name]; ok {
					ov.Replace[name] = src
				}
				continue
			}
			rw.run()
			if !rw.changed {
				if src, ok := replaced[name]; ok {
					ov.Replace[name] = src
				}
				continue
			}
			var buf bytes.Buffer
			must(format.Node(&buf, p.Fset, f))
			if _, err := parser.ParseFile(token.NewFileSet(), name, buf.Bytes(), 0); err != nil {
				fatal("instrument: rewritten %s does not parse: %v", rel, err)
			}
			dst := filepath.Join(*out, strings.ReplaceAll(rel, "/", "__"))
			must(os.WriteFile(dst, buf.Bytes(), 0o644))
			ov.Replace[name] = dst
			n++
		}
	}
	for abs, src := range replaced {
		if _, ok := ov.Replace[abs]; !ok {
			ov.Replace[abs] = src
		}
	}
	b, _ := json.MarshalIndent(ov, "", " ")
	must(os.WriteFile(filepath.Join(*out, "overlay.json"), b, 0o644))
	sb, _ := json.Marshal(stats)
	must(os.WriteFile(filepath.Join(*out, "instrument-stats.json"), sb, 0o644))
	fmt.Fprintf(os.Stderr, "instrument: %d files rewritten %s\n", n, sb)
}

func matchOSFile(rel string) bool {
	for _, k := range osFiles {
		if strings.HasSuffix(k, "/") {
			if strings.HasPrefix(rel, k) && !strings.Contains(rel[len(k):], "/") {
				return true
			}
		} else if rel == k {
			return true
		}
	}
	return false
}

func must(err error) {
	if err != nil {
		fatal("instrument: %v", err)
	}
}

func fatal(f string, a ...any) {
	fmt.Fprintf(os.Stderr, f+"\n", a...)
	os.Exit(2)
}

type rewriter struct {
	pkg         *packages.Package
	file        *ast.File
	fset        *token.FileSet
	info        *types.Info
	rel         string
	sched       bool
	os          bool
	changed     bool
	useRT       bool
	useOS       bool
	stats       map[string]int
	inComm      map[ast.Node]bool
	yieldIn     map[*ast.BlockStmt]bool // blocks (and nested) to receive stmt-level yields
	yieldCase   map[*ast.CaseClause]bool
	quietLoop   map[ast.Node]bool   // blocks and case clauses inside loops of the "noloops" files
	funcOf      map[ast.Node]string // enclosing function of blocks and case clauses
	fieldProbes bool                // rule R10 applies to this package
	rootLambda  bool                // rule R10 in package slip: fields of Lambda, reached through any variable or type assertion
	params      map[*types.Var]bool // parameters and receivers of the file's functions (rule R10)
	stores      map[string]bool     // rule R10: fields stored to somewhere in the package
}

func (rw *rewriter) site(n ast.Node) ast.Expr {
	pos := rw.fset.Position(n.Pos())
	return &ast.BasicLit{Kind: token.STRING, Value: strconv.Quote(fmt.Sprintf("%s:%d", filepath.Base(pos.Filename), pos.Line))}
}

func (rw *rewriter) rt(name string) ast.Expr {
	rw.useRT = true
	rw.changed = true
	rw.stats[name]++
	return &ast.SelectorExpr{X: ast.NewIdent("simrt"), Sel: ast.NewIdent(name)}
}

func (rw *rewriter) sos(name string) ast.Expr {
	rw.useOS = true
	rw.changed = true
	rw.stats["simos."+name]++
	return &ast.SelectorExpr{X: ast.NewIdent("simos"), Sel: ast.NewIdent(name)}
}

func call(fun ast.Expr, args ...ast.Expr) *ast.CallExpr {
	return &ast.CallExpr{Fun: fun, Args: args}
}

func (rw *rewriter) pkgOf(x ast.Expr) string {
	id, ok := x.(*ast.Ident)
	if !ok {
		return ""
	}
	if pn, ok := rw.info.Uses[id].(*types.PkgName); ok {
		return pn.Imported().Path()
	}
	return ""
}

func isChan(t types.Type) bool {
	if t == nil {
		return false
	}
	_, ok := t.Underlying().(*types.Chan)
	return ok
}

func namedIs(t types.Type, pkg, name string) bool {
	if t == nil {
		return false
	}
	n, ok := types.Unalias(t).(*types.Named)
	return ok && n.Obj().Pkg() != nil && n.Obj().Pkg().Path() == pkg && n.Obj().Name() == name
}

func (rw *rewriter) run() {
	rw.inComm = map[ast.Node]bool{}
	rw.yieldIn = map[*ast.BlockStmt]bool{}
	rw.yieldCase = map[*ast.CaseClause]bool{}
	rw.quietLoop = map[ast.Node]bool{}
	rw.funcOf = map[ast.Node]string{}
	entry := map[*ast.BlockStmt]bool{}
	for _, d := range rw.file.Decls {
		fd, ok := d.(*ast.FuncDecl)
		if !ok || fd.Body == nil {
			continue
		}
		name := fd.Name.Name
		if fd.Recv != nil && len(fd.Recv.List) == 1 {
			t := fd.Recv.List[0].Type
			if st, ok := t.(*ast.StarExpr); ok {
				t = st.X
			}
			if id, ok := t.(*ast.Ident); ok {
				name = id.Name + "." + name
			}
		}
		ast.Inspect(fd.Body, func(x ast.Node) bool {
			switch x.(type) {
			case *ast.BlockStmt, *ast.CaseClause:
				rw.funcOf[x] = name
			}
			return true
		})
	}
	if rw.sched && yieldEverywhere(rw.pkg.PkgPath, rw.rel) {
		var mark func(n ast.Node)
		mark = func(n ast.Node) {
			ast.Inspect(n, func(x ast.Node) bool {
				switch x.(type) {
				case *ast.BlockStmt, *ast.CaseClause:
					rw.quietLoop[x] = true
				}
				return true
			})
		}
		ast.Inspect(rw.file, func(n ast.Node) bool {
			switch tn := n.(type) {
			case *ast.ForStmt:
				mark(tn.Body)
			case *ast.RangeStmt:
				mark(tn.Body)
			}
			return true
		})
	}
	if rw.sched {
		ast.Inspect(rw.file, func(n ast.Node) bool {
			switch tn := n.(type) {
			case *ast.SelectStmt:
				for _, c := range tn.Body.List {
					cc := c.(*ast.CommClause)
					if cc.Comm != nil {
						rw.inComm[cc.Comm] = true
						switch s := cc.Comm.(type) {
						case *ast.ExprStmt:
							rw.inComm[ast.Unparen(s.X)] = true
						case *ast.AssignStmt:
							rw.inComm[ast.Unparen(s.Rhs[0])] = true
						}
					}
				}
			case *ast.FuncDecl:
				if tn.Body == nil {
					return true
				}
				key := rw.pkg.Name + "."
				if tn.Recv != nil && len(tn.Recv.List) == 1 {
					t := tn.Recv.List[0].Type
					if s, ok := t.(*ast.StarExpr); ok {
						t = s.X
					}
					if id, ok := t.(*ast.Ident); ok {
						key += id.Name + "."
					}
				}
				key += tn.Name.Name
				mode := yieldFuncs[key]
				if mode == "" && yieldEverywhere(rw.pkg.PkgPath, rw.rel) && !noYieldFuncs[key] {
					mode = "stmts-noloops"
				}
				switch mode {
				case "entry":
					entry[tn.Body] = true
				case "stmts":
					rw.markYield(tn.Body, true)
				case "stmts-noloops":
					// Loops in these files walk global tables whose size depends on
					// what the process has done before; yields inside them would
					// make the number of scheduling points of a case depend on the
					// cases executed earlier (found by the determinism self-test).
					rw.markYield(tn.Body, false)
				}
			}
			return true
		})
	}
	astutil.Apply(rw.file, rw.pre, rw.post)
	for b := range entry {
		y := &ast.ExprStmt{X: call(rw.rt("Yield"), rw.site(b))}
		b.List = append([]ast.Stmt{y}, b.List...)
	}
	if rw.useRT {
		astutil.AddImport(rw.fset, rw.file, simrtPath)
	}
	if rw.useOS {
		astutil.AddImport(rw.fset, rw.file, simosPath)
	}
	if rw.changed {
		for _, imp := range []string{"time", "os", "reflect", "sync", "runtime"} {
			if !rw.usesImport(imp) {
				astutil.DeleteImport(rw.fset, rw.file, imp)
			}
		}
		// Comments are positioned by offset; new nodes have none, so a
		// comment could be printed in the middle of a rewritten statement.
		// Keep only compiler directives.
		var keep []*ast.CommentGroup
		for _, cg := range rw.file.Comments {
			for _, c := range cg.List {
				if strings.HasPrefix(c.Text, "//go:") {
					keep = append(keep, cg)
					break
				}
			}
		}
		rw.file.Comments = keep
	}
}

// markYield marks every block nested in b (except map ranges and function
// literals) for statement-level yields.
func (rw *rewriter) markYield(b *ast.BlockStmt, loops bool) {
	skip := map[*ast.BlockStmt]bool{}
	ast.Inspect(b, func(n ast.Node) bool {
		switch tn := n.(type) {
		case *ast.FuncLit:
			return false
		case *ast.ForStmt:
			if !loops {
				return false
			}
		case *ast.RangeStmt:
			if !loops {
				return false
			}
			if t := rw.info.TypeOf(tn.X); t != nil {
				if _, ok := t.Underlying().(*types.Map); ok {
					return false
				}
			}
		case *ast.SwitchStmt:
			skip[tn.Body] = true
		case *ast.TypeSwitchStmt:
			skip[tn.Body] = true
		case *ast.SelectStmt:
			skip[tn.Body] = true
		case *ast.BlockStmt:
			if !skip[tn] {
				rw.yieldIn[tn] = true
			}
		case *ast.CaseClause:
			rw.yieldCase[tn] = true
		}
		return true
	})
}

func (rw *rewriter) pre(c *astutil.Cursor) bool {
	n := c.Node()
	if n == nil {
		return true
	}
	if rw.os {
		rw.preOS(c)
	}
	if !rw.sched {
		return true
	}
	switch tn := n.(type) {
	case *ast.SelectorExpr:
		if p := rw.pkgOf(tn.X); p == "time" && timeFuncs[tn.Sel.Name] {
			c.Replace(rw.rt(tn.Sel.Name))
		} else if p == "reflect" && tn.Sel.Name == "Select" {
			c.Replace(rw.rt("Select"))
		} else if p == "runtime" && (tn.Sel.Name == "GOMAXPROCS" || tn.Sel.Name == "NumCPU") {
			// R11: the number of processors is a knob of the simulation (the
			// scheduler runs one task at a time; code that sizes a pool or a
			// limit by it must work for 1..16)
			c.Replace(rw.rt(tn.Sel.Name))
			rw.stats["procs"]++
		}
	}
	return true
}

func (rw *rewriter) preOS(c *astutil.Cursor) {
	switch tn := c.Node().(type) {
	case *ast.GoStmt:
		// R13: a goroutine started by a file whose file-system calls are
		// interposed is background work of the simulated process: simos
		// decides when it runs (at once, only when waited for, or step by
		// step with the foreground)
		if rw.sched {
			break
		}
		var fn ast.Expr
		if lit, ok := tn.Call.Fun.(*ast.FuncLit); ok && len(tn.Call.Args) == 0 {
			fn = lit
		} else {
			fn = &ast.FuncLit{
				Type: &ast.FuncType{Params: &ast.FieldList{}},
				Body: &ast.BlockStmt{List: []ast.Stmt{&ast.ExprStmt{X: tn.Call}}},
			}
		}
		c.Replace(&ast.ExprStmt{X: call(rw.sos("Go"), fn)})
		rw.stats["simos.Go"]++
		return
	case *ast.SelectorExpr:
		if rw.pkgOf(tn.X) == "os" && osFuncs[tn.Sel.Name] {
			if _, isFunc := rw.info.Uses[tn.Sel].(*types.Func); isFunc {
				c.Replace(rw.sos(tn.Sel.Name))
			}
		}
	case *ast.CallExpr:
		// R6: a *os.File handed to a parameter of interface type (io.Writer,
		// io.Reader, ...) is wrapped, so that writes made through the
		// interface - by a bufio.Writer, fmt.Fprintf, io.Copy - are
		// file-system steps like direct ones
		if sig, isSig := rw.info.TypeOf(tn.Fun).(*types.Signature); isSig {
			for i, arg := range tn.Args {
				at, isPtr := rw.info.TypeOf(arg).(*types.Pointer)
				if !isPtr || !namedIs(at.Elem(), "os", "File") {
					continue
				}
				var pt types.Type
				switch np := sig.Params().Len(); {
				case sig.Variadic() && i >= np-1:
					if sl, ok := sig.Params().At(np - 1).Type().(*types.Slice); ok {
						pt = sl.Elem()
					}
				case i < np:
					pt = sig.Params().At(i).Type()
				}
				if pt != nil && types.IsInterface(pt) {
					tn.Args[i] = call(rw.sos("IO"), arg)
				}
			}
		}
		// R9, tuning knobs: the buffer size handed to NewLineReader becomes a
		// per-case knob (simos.Knob returns the literal when no knob is set)
		if id, isID := tn.Fun.(*ast.Ident); isID && id.Name == "NewLineReader" && len(tn.Args) == 2 {
			if lit, isLit := tn.Args[1].(*ast.BasicLit); isLit && lit.Kind == token.INT {
				tn.Args[1] = call(ast.NewIdent("uint"), call(rw.sos("Knob"), &ast.BasicLit{Kind: token.STRING, Value: `"linereader"`}, lit))
			}
			return
		}
		sel, ok := tn.Fun.(*ast.SelectorExpr)
		if !ok {
			return
		}
		if rw.pkgOf(sel.X) == "bufio" && len(tn.Args) == 1 && (sel.Sel.Name == "NewWriter" || sel.Sel.Name == "NewReader") {
			// R9: the default size of a buffered writer/reader over one of the
			// REPL's files is a knob too (the unchanged tree has none; a change
			// that introduces one gets its block boundaries exercised)
			sel.Sel = ast.NewIdent(sel.Sel.Name + "Size")
			tn.Args = append(tn.Args, call(rw.sos("Knob"), &ast.BasicLit{Kind: token.STRING, Value: `"bufio"`}, &ast.BasicLit{Kind: token.INT, Value: "4096"}))
			return
		}
		if sel.Sel.Name == "Wait" && len(tn.Args) == 0 && !rw.sched {
			if sl := rw.info.Selections[sel]; sl != nil {
				if fn, isFn := sl.Obj().(*types.Func); isFn && fn.FullName() == "(*sync.WaitGroup).Wait" && len(sl.Index()) == 1 {
					recv := sel.X
					if _, isPtr := rw.info.TypeOf(recv).(*types.Pointer); !isPtr {
						recv = &ast.UnaryExpr{Op: token.AND, X: recv}
					}
					tn.Fun = rw.sos("WGWait")
					tn.Args = []ast.Expr{recv}
					rw.stats["simos.WGWait"]++
					return
				}
			}
		}
		repl, ok := fileMethods[sel.Sel.Name]
		if !ok {
			return
		}
		t := rw.info.TypeOf(sel.X)
		p, ok := t.(*types.Pointer)
		if !ok || !namedIs(p.Elem(), "os", "File") {
			return
		}
		tn.Fun = rw.sos(repl)
		tn.Args = append([]ast.Expr{sel.X}, tn.Args...)
	}
}

func (rw *rewriter) lockCall(ce *ast.CallExpr) (recv ast.Expr, method string, ok bool) {
	sel, isSel := ce.Fun.(*ast.SelectorExpr)
	if !isSel || len(ce.Args) != 0 {
		return
	}
	switch sel.Sel.Name {
	case "Lock", "Unlock", "RLock", "RUnlock", "TryLock":
	default:
		return
	}
	s := rw.info.Selections[sel]
	if s == nil {
		return
	}
	fn, isFn := s.Obj().(*types.Func)
	if !isFn {
		return
	}
	full := fn.FullName()
	switch full {
	case "(*sync.Mutex).TryLock", "(*sync.RWMutex).TryLock", "(" + modPath + ".Locker).TryLock",
		"(*sync.RWMutex).Lock", "(*sync.RWMutex).Unlock", "(*sync.RWMutex).RLock", "(*sync.RWMutex).RUnlock",
		"(*sync.Mutex).Lock", "(*sync.Mutex).Unlock",
		"(sync.Locker).Lock", "(sync.Locker).Unlock",
		"(" + modPath + ".Locker).Lock", "(" + modPath + ".Locker).Unlock":
	default:
		return
	}
	recv = sel.X
	t := rw.info.TypeOf(recv)
	if idx := s.Index(); len(idx) != 1 {
		// a promoted method (a struct that embeds sync.Mutex / sync.RWMutex,
		// seeded change C02-n1): the receiver is the embedded field, reached
		// along the selection's index path
		for _, i := range idx[:len(idx)-1] {
			if p, isPtr := t.(*types.Pointer); isPtr {
				t = p.Elem()
			}
			st, isSt := t.Underlying().(*types.Struct)
			if !isSt || i >= st.NumFields() {
				fmt.Fprintf(os.Stderr, "instrument: warning: promoted lock method at %s left alone\n", rw.fset.Position(ce.Pos()))
				return nil, "", false
			}
			recv = &ast.SelectorExpr{X: recv, Sel: ast.NewIdent(st.Field(i).Name())}
			t = st.Field(i).Type()
		}
	}
	if _, isPtr := t.(*types.Pointer); !isPtr {
		if _, isIface := t.Underlying().(*types.Interface); !isIface {
			recv = &ast.UnaryExpr{Op: token.AND, X: recv}
		}
	}
	return recv, sel.Sel.Name, true
}

func (rw *rewriter) post(c *astutil.Cursor) bool {
	n := c.Node()
	if n == nil || !rw.sched {
		return true
	}
	switch tn := n.(type) {
	case *ast.GoStmt:
		var fn ast.Expr
		if lit, ok := tn.Call.Fun.(*ast.FuncLit); ok && len(tn.Call.Args) == 0 {
			fn = lit
		} else {
			fn = &ast.FuncLit{
				Type: &ast.FuncType{Params: &ast.FieldList{}},
				Body: &ast.BlockStmt{List: []ast.Stmt{&ast.ExprStmt{X: tn.Call}}},
			}
		}
		c.Replace(&ast.ExprStmt{X: call(rw.rt("Go"), fn)})
	case *ast.SendStmt:
		if rw.inComm[tn] {
			break
		}
		c.Replace(&ast.ExprStmt{X: call(rw.rt("Send"), tn.Chan, tn.Value, rw.site(tn))})
	case *ast.UnaryExpr:
		if tn.Op != token.ARROW || rw.inComm[tn] {
			break
		}
		name := "Recv"
		switch p := c.Parent().(type) {
		case *ast.AssignStmt:
			if len(p.Lhs) == 2 && len(p.Rhs) == 1 {
				name = "Recv2"
			}
		case *ast.ValueSpec:
			if len(p.Names) == 2 && len(p.Values) == 1 {
				name = "Recv2"
			}
		}
		c.Replace(call(rw.rt(name), tn.X, rw.site(tn)))
	case *ast.CallExpr:
		if id, ok := tn.Fun.(*ast.Ident); ok && id.Name == "close" && len(tn.Args) == 1 {
			if _, isB := rw.info.Uses[id].(*types.Builtin); isB {
				c.Replace(call(rw.rt("Close"), tn.Args[0]))
			}
			break
		}
		if sel, isSel := tn.Fun.(*ast.SelectorExpr); isSel && len(tn.Args) == 0 {
			// condition variables (added after seeded change C17-l1, whose
			// sync.Cond the simulator did not own: the run hung and the
			// check ended with exit 2)
			if sl := rw.info.Selections[sel]; sl != nil {
				if fn, isFn := sl.Obj().(*types.Func); isFn {
					recv := sel.X
					if _, isPtr := rw.info.TypeOf(recv).(*types.Pointer); !isPtr {
						recv = &ast.UnaryExpr{Op: token.AND, X: recv}
					}
					switch fn.FullName() {
					case "(*sync.Cond).Wait":
						c.Replace(call(rw.rt("CondWait"), recv, rw.site(tn)))
						rw.stats["cond"]++
						return true
					case "(*sync.Cond).Signal":
						c.Replace(call(rw.rt("CondSignal"), recv))
						rw.stats["cond"]++
						return true
					case "(*sync.Cond).Broadcast":
						c.Replace(call(rw.rt("CondBroadcast"), recv))
						rw.stats["cond"]++
						return true
					}
				}
			}
		}
		if recv, m, ok := rw.lockCall(tn); ok {
			switch m {
			case "Lock":
				c.Replace(call(rw.rt("Lock"), recv, rw.site(tn)))
			case "RLock":
				c.Replace(call(rw.rt("RLock"), recv, rw.site(tn)))
			case "RUnlock":
				c.Replace(call(rw.rt("RUnlock"), recv))
			case "TryLock":
				c.Replace(call(rw.rt("TryLock"), recv, rw.site(tn)))
			default:
				c.Replace(call(rw.rt("Unlock"), recv))
			}
		}
	case *ast.RangeStmt:
		if !isChan(rw.info.TypeOf(tn.X)) {
			break
		}
		c.Replace(rw.rangeChan(tn))
	case *ast.SelectStmt:
		c.Replace(rw.selectStmt(tn))
	case *ast.BlockStmt:
		tn.List = rw.withMapProbes(tn.List, rw.quietLoop[tn], rw.funcOf[tn])
		if rw.yieldIn[tn] {
			tn.List = rw.withYields(tn.List)
		}
	case *ast.CaseClause:
		tn.Body = rw.withMapProbes(tn.Body, rw.quietLoop[tn], rw.funcOf[tn])
		if rw.yieldCase[tn] {
			tn.Body = rw.withYields(tn.Body)
		}
	}
	return true
}

// ---- rule R8: map access probes ----

func (rw *rewriter) isSlice(e ast.Expr) bool {
	t := rw.info.TypeOf(e)
	if t == nil {
		return false
	}
	_, ok := t.Underlying().(*types.Slice)
	return ok
}

// fieldProbe is varProbe for a selector made by the instrumenter (which has
// no type information): the site is named from the type.
func (rw *rewriter) fieldProbe(name string, n *types.Named, sel *ast.SelectorExpr, at ast.Node, fn string) ast.Stmt {
	pos := rw.fset.Position(at.Pos())
	site := fmt.Sprintf("%s:%s:%s.%s", filepath.Base(pos.Filename), fn, n.Obj().Name(), sel.Sel.Name)
	return &ast.ExprStmt{X: call(rw.rt(name), &ast.UnaryExpr{Op: token.AND, X: sel}, &ast.BasicLit{Kind: token.STRING, Value: strconv.Quote(site)})}
}

func (rw *rewriter) varProbe(name string, x ast.Expr, at ast.Node, fn string) ast.Stmt {
	pos := rw.fset.Position(at.Pos())
	site := fmt.Sprintf("%s:%s:%s", filepath.Base(pos.Filename), fn, rw.mapName(x))
	return &ast.ExprStmt{X: call(rw.rt(name), &ast.UnaryExpr{Op: token.AND, X: x}, &ast.BasicLit{Kind: token.STRING, Value: strconv.Quote(site)})}
}

// tableTypes are the struct types whose slice fields belong to the
// interpreter's shared tables; slice probes are limited to them and to
// package-level variables (a probe on every slice field of every object
// would put a scheduling point into each step of the reader).
var tableTypes = map[string]bool{"Package": true, "Flavor": true, "StandardClass": true, "Aux": true, "ConditionClass": true}

// sharedSliceExpr reports whether x is a package-level slice variable or a
// slice field of one of the table types.
func (rw *rewriter) sharedSliceExpr(x ast.Expr, stmt ast.Stmt) bool {
	if !rw.isSlice(x) || !addressable(x) || !rw.sharedMapExpr(x, stmt) {
		return false
	}
	switch tx := ast.Unparen(x).(type) {
	case *ast.Ident:
		return true // sharedMapExpr accepted it: package-level
	case *ast.SelectorExpr:
		if rw.pkgOf(tx.X) != "" {
			return true
		}
		t := rw.info.TypeOf(tx.X)
		if p, ok := t.(*types.Pointer); ok {
			t = p.Elem()
		}
		if n, ok := types.Unalias(t).(*types.Named); ok {
			return tableTypes[n.Obj().Name()]
		}
	}
	return false
}

// pkgCounter returns x as an identifier when it names a package-level
// variable of an integer type declared in the package being rewritten.
func (rw *rewriter) pkgCounter(x ast.Expr) *ast.Ident {
	id, ok := ast.Unparen(x).(*ast.Ident)
	if !ok {
		return nil
	}
	v, ok := rw.info.Uses[id].(*types.Var)
	if !ok || v.IsField() || v.Pkg() != rw.pkg.Types || v.Parent() != v.Pkg().Scope() {
		return nil
	}
	if b, ok := v.Type().Underlying().(*types.Basic); !ok || b.Info()&types.IsInteger == 0 {
		return nil
	}
	return id
}

// elemFields: slice fields of shared code objects whose *elements* are
// rewritten in place while other routines may be evaluating the same code
// (Function.Eval compiles a list argument on first use and stores the result
// back into f.Args[i]).
var elemFields = map[string]string{"Function": "Args"}

// elemExpr reports whether ix is x.Args[i] of a Function with plain operands.
func (rw *rewriter) elemExpr(ix *ast.IndexExpr, stmt ast.Stmt) bool {
	sel, ok := ast.Unparen(ix.X).(*ast.SelectorExpr)
	if !ok || !rw.isSlice(ix.X) || rw.hasRealCall(ix.Index) || !addressable(ix.X) {
		return false
	}
	t := rw.info.TypeOf(sel.X)
	if t == nil {
		return false
	}
	if p, ok := t.(*types.Pointer); ok {
		t = p.Elem()
	}
	n, ok := types.Unalias(t).(*types.Named)
	if !ok || elemFields[n.Obj().Name()] != sel.Sel.Name {
		return false
	}
	if id, ok := ast.Unparen(sel.X).(*ast.Ident); ok {
		if v, ok := rw.info.Uses[id].(*types.Var); ok && v.Pos() < stmt.Pos() {
			if iid, ok := ast.Unparen(ix.Index).(*ast.Ident); ok {
				if iv, ok := rw.info.Uses[iid].(*types.Var); ok && iv.Pos() < stmt.Pos() {
					return true
				}
			}
		}
	}
	return false
}

// addressable reports whether &x compiles for the shared expression x (a
// selector chain without the Vars() accessor).
func addressable(x ast.Expr) bool {
	ok := true
	ast.Inspect(x, func(n ast.Node) bool {
		if _, isCall := n.(*ast.CallExpr); isCall {
			ok = false
		}
		return ok
	})
	return ok
}

func (rw *rewriter) isMap(e ast.Expr) bool {
	t := rw.info.TypeOf(e)
	if t == nil {
		return false
	}
	_, ok := t.Underlying().(*types.Map)
	return ok
}

// sharedMapExpr reports whether x (a map-typed expression) may name a map
// that is reachable by several routines and can be evaluated a second time
// before stmt without effect: a chain of field selections (and the Vars()
// accessor) that starts at a package-level variable or at a variable
// declared before the statement. A map held directly in a local variable
// is left alone.
func (rw *rewriter) sharedMapExpr(x ast.Expr, stmt ast.Stmt) bool {
	depth := 0
	for {
		switch tx := x.(type) {
		case *ast.ParenExpr:
			x = tx.X
		case *ast.StarExpr:
			x = tx.X
		case *ast.SelectorExpr:
			if rw.pkgOf(tx.X) != "" {
				// pkg.Var
				_, isVar := rw.info.Uses[tx.Sel].(*types.Var)
				return isVar
			}
			if _, isVar := rw.info.Uses[tx.Sel].(*types.Var); !isVar {
				return false
			}
			depth++
			x = tx.X
		case *ast.CallExpr:
			sel, ok := tx.Fun.(*ast.SelectorExpr)
			if !ok || len(tx.Args) != 0 || sel.Sel.Name != "Vars" {
				return false
			}
			depth++
			x = sel.X
		case *ast.Ident:
			v, ok := rw.info.Uses[tx].(*types.Var)
			if !ok {
				return false
			}
			if v.Parent() == v.Pkg().Scope() {
				return true // package-level
			}
			return depth > 0 && v.Pos() < stmt.Pos()
		default:
			return false
		}
	}
}

// realCall reports whether ce is a call that runs code (not a conversion or
// a builtin). Nodes made by earlier rewrites have no type information and
// count as calls.
func (rw *rewriter) realCall(ce *ast.CallExpr) bool {
	if tv, ok := rw.info.Types[ce.Fun]; ok && tv.IsType() {
		return false
	}
	if id, ok := ast.Unparen(ce.Fun).(*ast.Ident); ok {
		if _, isB := rw.info.Uses[id].(*types.Builtin); isB {
			return false
		}
	}
	if sel, ok := ast.Unparen(ce.Fun).(*ast.SelectorExpr); ok && purePkgs[rw.pkgOf(sel.X)] {
		return false // cannot block, lock or reach instrumented code
	}
	return true
}

// purePkgs are standard packages whose functions compute a value from their
// arguments: a call of one of them between a probe and the access it announces
// cannot block or yield.
var purePkgs = map[string]bool{"bytes": true, "strings": true, "unicode/utf8": true, "unicode": true, "strconv": true, "math": true}

// sliceReads returns the package-level slice variables that stmt reads (index,
// slice, len, range operand ...) when nothing in the statement can block
// before the read.
func (rw *rewriter) sliceReads(stmt ast.Stmt, hdr []ast.Node) (out []*ast.Ident) {
	seen := map[string]bool{}
	for _, h := range hdr {
		if h == nil || reflect.ValueOf(h).IsNil() || rw.hasRealCall(h) {
			continue
		}
		ast.Inspect(h, func(x ast.Node) bool {
			switch tx := x.(type) {
			case *ast.FuncLit:
				return false
			case *ast.BinaryExpr:
				if tx.Op == token.LAND || tx.Op == token.LOR {
					return false // conditional evaluation
				}
			case *ast.Ident:
				if v, ok := rw.info.Uses[tx].(*types.Var); ok && !v.IsField() && v.Pkg() == rw.pkg.Types && v.Parent() == v.Pkg().Scope() &&
					rw.isSlice(tx) && !seen[tx.Name] && rw.sharedSliceExpr(tx, stmt) {
					seen[tx.Name] = true
					out = append(out, tx)
				}
			}
			return true
		})
	}
	return
}

func (rw *rewriter) hasRealCall(n ast.Node) (found bool) {
	if n == nil {
		return false
	}
	ast.Inspect(n, func(x ast.Node) bool {
		switch tx := x.(type) {
		case *ast.FuncLit:
			return false
		case *ast.CallExpr:
			if rw.realCall(tx) {
				found = true
			}
		case *ast.UnaryExpr:
			if tx.Op == token.ARROW {
				found = true
			}
		}
		return !found
	})
	return
}

// mapReads returns the map operands read by the header expressions hdr of
// stmt for which a probe before the statement is exact: the read is not
// conditional (not in the right operand of && or ||) and no call of the
// header can run before it.
func (rw *rewriter) mapReads(stmt ast.Stmt, hdr []ast.Node, skip map[ast.Expr]bool) []ast.Expr {
	var calls []*ast.CallExpr
	var reads []*ast.IndexExpr
	blocked := false
	for _, h := range hdr {
		if h == nil || reflect.ValueOf(h).IsNil() {
			continue
		}
		var walk func(n ast.Node, cond bool)
		walk = func(n ast.Node, cond bool) {
			ast.Inspect(n, func(x ast.Node) bool {
				switch tx := x.(type) {
				case *ast.FuncLit:
					return false
				case *ast.BinaryExpr:
					if tx.Op == token.LAND || tx.Op == token.LOR {
						walk(tx.X, cond)
						walk(tx.Y, true)
						return false
					}
				case *ast.CallExpr:
					if rw.realCall(tx) {
						calls = append(calls, tx)
					}
				case *ast.UnaryExpr:
					if tx.Op == token.ARROW {
						blocked = true
					}
				case *ast.IndexExpr:
					if !cond && !skip[tx] && rw.isMap(tx.X) && rw.sharedMapExpr(tx.X, stmt) {
						reads = append(reads, tx)
					}
				}
				return true
			})
		}
		walk(h, false)
	}
	if blocked {
		return nil
	}
	var out []ast.Expr
	seen := map[string]bool{}
	for _, r := range reads {
		ok := true
		for _, c := range calls {
			if !c.Lparen.IsValid() || !(c.Lparen < r.Pos() && r.End() <= c.Rparen) {
				ok = false // the call may run before the read
				break
			}
			// the read is an argument of c: c runs after it - unless the call
			// is the map operand itself (x.Vars()[k])
		}
		if !ok {
			continue
		}
		if rw.hasRealCall(r.Index) {
			continue
		}
		var b bytes.Buffer
		_ = format.Node(&b, rw.fset, r.X)
		if !seen[b.String()] {
			seen[b.String()] = true
			out = append(out, r.X)
		}
	}
	return out
}

// ---- rule R10: field probes on shared code objects ----
//
// A compiled form (a struct that embeds slip.Function) is one object per place
// in the code and is shared by every routine that evaluates that code; the
// generic function objects of pkg/generic (Aux, genfun, ...) are shared by
// every caller. A store to a field of such an object from inside a method or
// through a pointer parameter is a write that other routines can meet. The
// probe is the same write window as for maps: VarW(&x.f) before the store,
// VarR(&x.f) before a statement that reads a field that is stored to
// somewhere in the package.

type pkgFieldInfo struct {
	params map[*types.Var]bool
	stores map[string]bool
}

var pkgFieldCache = map[*packages.Package]*pkgFieldInfo{}

// rootLambdaFiles are the files of package slip in which rule R10 probes the
// fields of Lambda objects.
var rootLambdaFiles = map[string]bool{"method.go": true, "whoploc.go": true, "lambda.go": true}

// pkgParams returns the parameters and receivers of every function of the
// package, and the (initially unset) store table shared by its files.
func pkgParams(p *packages.Package) (map[*types.Var]bool, map[string]bool) {
	if c := pkgFieldCache[p]; c != nil {
		return c.params, c.stores
	}
	c := &pkgFieldInfo{params: map[*types.Var]bool{}}
	add := func(fl *ast.FieldList) {
		if fl == nil {
			return
		}
		for _, f := range fl.List {
			for _, name := range f.Names {
				if v, ok := p.TypesInfo.Defs[name].(*types.Var); ok {
					c.params[v] = true
				}
			}
		}
	}
	for _, f := range p.Syntax {
		ast.Inspect(f, func(x ast.Node) bool {
			switch tx := x.(type) {
			case *ast.FuncDecl:
				add(tx.Recv)
				add(tx.Type.Params)
			case *ast.FuncLit:
				add(tx.Type.Params)
			}
			return true
		})
	}
	pkgFieldCache[p] = c
	// the store table needs a rewriter's helpers; it is filled on first use
	rw := &rewriter{pkg: p, fset: p.Fset, info: p.TypesInfo, params: c.params, stats: map[string]int{}, rootLambda: p.PkgPath == modPath}
	c.stores = rw.fieldStores()
	return c.params, c.stores
}

// codeObjectType reports whether t (or what it points to) is a named struct
// that embeds slip.Function, or a named struct declared in pkg/generic.
func (rw *rewriter) codeObjectType(t types.Type) (*types.Named, bool) {
	if t == nil {
		return nil, false
	}
	if p, ok := t.(*types.Pointer); ok {
		t = p.Elem()
	}
	n, ok := types.Unalias(t).(*types.Named)
	if !ok {
		return nil, false
	}
	st, ok := n.Underlying().(*types.Struct)
	if !ok {
		return nil, false
	}
	if n.Obj().Pkg() != nil && strings.HasSuffix(n.Obj().Pkg().Path(), "/pkg/generic") {
		return n, true
	}
	if rw.rootLambda && n.Obj().Name() == "Lambda" && n.Obj().Pkg() != nil && n.Obj().Pkg().Path() == modPath {
		return n, true
	}
	for i := 0; i < st.NumFields(); i++ {
		f := st.Field(i)
		if f.Embedded() {
			if fn, ok := types.Unalias(f.Type()).(*types.Named); ok && fn.Obj().Name() == "Function" && fn.Obj().Pkg() != nil && fn.Obj().Pkg().Path() == modPath {
				return n, true
			}
		}
	}
	return nil, false
}

// paramOrReceiver reports whether id names a parameter or the receiver of the
// enclosing function (an object that came from outside, not one made here).
func (rw *rewriter) paramOrReceiver(id *ast.Ident) bool {
	v, ok := rw.info.Uses[id].(*types.Var)
	if !ok || v.IsField() {
		return false
	}
	return rw.params[v]
}

// fieldOf returns the named struct type and field of the selector x.f when x
// is a parameter or receiver holding a code object and f one of its own
// fields (not a promoted one).
func (rw *rewriter) fieldOf(e ast.Expr) (*types.Named, *ast.SelectorExpr, bool) {
	sel, ok := ast.Unparen(e).(*ast.SelectorExpr)
	if !ok {
		return nil, nil, false
	}
	var base ast.Expr
	if id, ok := ast.Unparen(sel.X).(*ast.Ident); ok && rw.paramOrReceiver(id) {
		base = id
	} else if rw.rootLambda {
		// package slip: a Lambda is never made in these files' functions, so
		// whatever variable or type assertion holds one came from outside
		switch tx := ast.Unparen(sel.X).(type) {
		case *ast.Ident:
			if v, isVar := rw.info.Uses[tx].(*types.Var); isVar && !v.IsField() {
				base = tx
			}
		case *ast.TypeAssertExpr:
			if !rw.hasRealCall(tx.X) {
				base = tx
			}
		}
	}
	if base == nil {
		return nil, nil, false
	}
	sl := rw.info.Selections[sel]
	if sl == nil || sl.Kind() != types.FieldVal || len(sl.Index()) != 1 {
		return nil, nil, false
	}
	n, ok := rw.codeObjectType(rw.info.TypeOf(base))
	if !ok {
		return nil, nil, false
	}
	switch sl.Obj().Type().Underlying().(type) {
	case *types.Map:
		return nil, nil, false // rule R8's business
	case *types.Slice:
		if tableTypes[n.Obj().Name()] {
			return nil, nil, false // rule R8's business
		}
	}
	if named, ok := types.Unalias(sl.Obj().Type()).(*types.Named); ok && named.Obj().Pkg() != nil &&
		(named.Obj().Pkg().Path() == "sync" || named.Obj().Pkg().Path() == "sync/atomic") {
		return nil, nil, false
	}
	return n, sel, true
}

// fieldStores collects "Type.field" for every store of the package that
// fieldOf accepts, and "Type.*" for stores through a pointer parameter.
func (rw *rewriter) fieldStores() map[string]bool {
	if rw.stores != nil {
		return rw.stores
	}
	rw.stores = map[string]bool{}
	for _, f := range rw.pkg.Syntax {
		ast.Inspect(f, func(x ast.Node) bool {
			switch tx := x.(type) {
			case *ast.AssignStmt:
				for _, l := range tx.Lhs {
					if n, sel, ok := rw.fieldOf(l); ok {
						rw.stores[n.Obj().Name()+"."+sel.Sel.Name] = true
					}
					if n, _, ok := rw.derefStore(l); ok {
						rw.stores[n.Obj().Name()+".*"] = true
					}
				}
			case *ast.IncDecStmt:
				if n, sel, ok := rw.fieldOf(tx.X); ok {
					rw.stores[n.Obj().Name()+"."+sel.Sel.Name] = true
				}
			}
			return true
		})
	}
	return rw.stores
}

// derefStore: *p = v where p is a pointer parameter to a code object.
func (rw *rewriter) derefStore(e ast.Expr) (*types.Named, *ast.Ident, bool) {
	st, ok := ast.Unparen(e).(*ast.StarExpr)
	if !ok {
		return nil, nil, false
	}
	id, ok := ast.Unparen(st.X).(*ast.Ident)
	if !ok || !rw.paramOrReceiver(id) {
		return nil, nil, false
	}
	n, ok := rw.codeObjectType(rw.info.TypeOf(id))
	return n, id, ok
}

// fieldReads returns the x.f operands read by the header expressions of stmt
// (no call in the header, not conditional) whose field is stored to somewhere.
func (rw *rewriter) fieldReads(hdr []ast.Node, skip map[ast.Expr]bool) (out []*ast.SelectorExpr) {
	stores := rw.fieldStores()
	if len(stores) == 0 {
		return nil
	}
	seen := map[string]bool{}
	var visit func(x ast.Node, walk func(ast.Node)) bool
	for _, h := range hdr {
		if h == nil || reflect.ValueOf(h).IsNil() || rw.hasRealCall(h) {
			continue
		}
		var walk func(n ast.Node)
		walk = func(n ast.Node) {
			ast.Inspect(n, func(x ast.Node) bool {
				return visit(x, walk)
			})
		}
		visit = func(x ast.Node, walk func(ast.Node)) bool {
			switch tx := x.(type) {
			case *ast.FuncLit:
				return false
			case *ast.BinaryExpr:
				if tx.Op == token.LAND || tx.Op == token.LOR {
					walk(tx.X) // the left operand is always evaluated
					return false
				}
			case *ast.SelectorExpr:
				if skip[tx] {
					return false
				}
				if n, sel, ok := rw.fieldOf(tx); ok && (stores[n.Obj().Name()+"."+sel.Sel.Name] || stores[n.Obj().Name()+".*"]) {
					var b bytes.Buffer
					_ = format.Node(&b, rw.fset, sel)
					if !seen[b.String()] {
						seen[b.String()] = true
						out = append(out, sel)
					}
				}
			}
			return true
		}
		walk(h)
	}
	return
}

// mapName names the map of a probe independently of line numbers and of the
// name of the variable that holds its owner: "<type of the owner>.<field>"
// for a field, the variable name for a package-level map.
func (rw *rewriter) mapName(m ast.Expr) string {
	switch tm := ast.Unparen(m).(type) {
	case *ast.SelectorExpr:
		if rw.pkgOf(tm.X) != "" {
			return tm.Sel.Name
		}
		if t := rw.info.TypeOf(tm.X); t != nil {
			if p, ok := t.(*types.Pointer); ok {
				t = p.Elem()
			}
			if n, ok := types.Unalias(t).(*types.Named); ok {
				return n.Obj().Name() + "." + tm.Sel.Name
			}
		}
		return tm.Sel.Name
	case *ast.CallExpr:
		if sel, ok := tm.Fun.(*ast.SelectorExpr); ok {
			return sel.Sel.Name + "()"
		}
	case *ast.IndexExpr:
		return rw.mapName(tm.X) + "[i]"
	case *ast.Ident:
		return tm.Name
	}
	return "?"
}

// A probe's site is "<file>:<function>:<map>" - no line numbers, so that a
// known finding keeps matching when unrelated lines move.
func (rw *rewriter) probe(name string, m ast.Expr, at ast.Node, fn string) ast.Stmt {
	pos := rw.fset.Position(at.Pos())
	site := fmt.Sprintf("%s:%s:%s", filepath.Base(pos.Filename), fn, rw.mapName(m))
	return &ast.ExprStmt{X: call(rw.rt(name), m, &ast.BasicLit{Kind: token.STRING, Value: strconv.Quote(site)})}
}

func (rw *rewriter) withMapProbes(list []ast.Stmt, quiet bool, fn string) []ast.Stmt {
	if quiet && len(list) > 0 {
		// a statement list inside a loop that ends with a return runs at most
		// once per call, whatever the size of the table the loop walks: its
		// write probes may have a scheduling point without making the number
		// of scheduling points depend on earlier cases
		if _, isRet := list[len(list)-1].(*ast.ReturnStmt); isRet {
			quiet = false
		}
	}
	wname := "MapW"
	if quiet {
		wname = "MapWQ"
	}
	out := make([]ast.Stmt, 0, len(list))
	for _, s := range list {
		if !s.Pos().IsValid() {
			out = append(out, s)
			continue
		}
		skip := map[ast.Expr]bool{}
		var hdr []ast.Node
		switch ts := s.(type) {
		case *ast.AssignStmt:
			if rw.fieldProbes && len(ts.Lhs) == 1 && len(ts.Rhs) == 1 && ts.Tok != token.DEFINE && !rw.hasRealCall(ts.Rhs[0]) {
				if _, sel, ok := rw.fieldOf(ts.Lhs[0]); ok {
					skip[sel] = true
					out = append(out, rw.varProbe("VarW", sel, s, fn))
					rw.stats["fieldw"]++
				} else if n, id, ok := rw.derefStore(ts.Lhs[0]); ok {
					if st, isSt := n.Underlying().(*types.Struct); isSt && st.NumFields() <= 8 {
						for i := 0; i < st.NumFields(); i++ {
							fsel := &ast.SelectorExpr{X: ast.NewIdent(id.Name), Sel: ast.NewIdent(st.Field(i).Name())}
							out = append(out, rw.fieldProbe("VarW", n, fsel, s, fn))
							rw.stats["fieldw"]++
						}
					}
				}
			}
			if len(ts.Lhs) == 1 && len(ts.Rhs) == 1 && ts.Tok != token.ASSIGN && ts.Tok != token.DEFINE && !rw.hasRealCall(ts.Rhs[0]) {
				if id := rw.pkgCounter(ts.Lhs[0]); id != nil {
					vw := "VarW"
					if quiet {
						vw = "VarWQ"
					}
					out = append(out, rw.varProbe(vw, id, s, fn))
					rw.stats["counterw"]++
				}
			}
			if len(ts.Lhs) == 1 && ts.Tok == token.ASSIGN && rw.sharedSliceExpr(ts.Lhs[0], s) && !rw.hasRealCall(ts.Rhs[0]) {
				vw := "VarW"
				if quiet {
					vw = "VarWQ"
				}
				out = append(out, rw.varProbe(vw, ts.Lhs[0], s, fn))
			}
			for _, l := range ts.Lhs {
				ix, ok := ast.Unparen(l).(*ast.IndexExpr)
				if ok && len(ts.Lhs) == 1 && ts.Tok == token.ASSIGN && rw.elemExpr(ix, s) && !rw.hasRealCall(ts.Rhs[0]) {
					out = append(out, rw.varProbe("VarW", ix, s, fn))
					continue
				}
				if !ok || !rw.isMap(ix.X) || !rw.sharedMapExpr(ix.X, s) {
					continue
				}
				skip[ix] = true
				simple := !rw.hasRealCall(ix.Index)
				for _, r := range ts.Rhs {
					if rw.hasRealCall(r) {
						simple = false
					}
				}
				if simple {
					out = append(out, rw.probe(wname, ix.X, s, fn))
				} else {
					rw.stats["mapw-skipped"]++
				}
			}
			hdr = append(hdr, ts)
		case *ast.IncDecStmt:
			if id := rw.pkgCounter(ts.X); id != nil {
				// R12: v++ on a package-level integer of this package is a
				// read-modify-write of a word every routine shares
				vw := "VarW"
				if quiet {
					vw = "VarWQ"
				}
				out = append(out, rw.varProbe(vw, id, s, fn))
				rw.stats["counterw"]++
			}
			if rw.fieldProbes {
				if _, sel, ok := rw.fieldOf(ts.X); ok {
					skip[sel] = true
					out = append(out, rw.varProbe("VarW", sel, s, fn))
					rw.stats["fieldw"]++
				}
			}
			if ix, ok := ast.Unparen(ts.X).(*ast.IndexExpr); ok && rw.isMap(ix.X) && rw.sharedMapExpr(ix.X, s) && !rw.hasRealCall(ix.Index) {
				skip[ix] = true
				out = append(out, rw.probe(wname, ix.X, s, fn))
			}
		case *ast.ExprStmt:
			if ce, ok := ts.X.(*ast.CallExpr); ok {
				if id, ok := ce.Fun.(*ast.Ident); ok && id.Name == "delete" && len(ce.Args) == 2 {
					if _, isB := rw.info.Uses[id].(*types.Builtin); isB && rw.isMap(ce.Args[0]) &&
						rw.sharedMapExpr(ce.Args[0], s) && !rw.hasRealCall(ce.Args[1]) {
						out = append(out, rw.probe(wname, ce.Args[0], s, fn))
						break
					}
				}
			}
			hdr = append(hdr, ts.X)
		case *ast.ReturnStmt:
			for _, r := range ts.Results {
				hdr = append(hdr, r)
			}
		case *ast.IfStmt:
			if ts.Init != nil {
				hdr = append(hdr, ts.Init)
			}
			hdr = append(hdr, ts.Cond)
		case *ast.SwitchStmt:
			if ts.Init != nil {
				hdr = append(hdr, ts.Init)
			}
			if ts.Tag != nil {
				hdr = append(hdr, ts.Tag)
			}
		case *ast.RangeStmt:
			if rw.isMap(ts.X) && rw.sharedMapExpr(ts.X, s) {
				out = append(out, rw.probe("MapR", ts.X, s, fn))
				ts.Body.List = append([]ast.Stmt{rw.probe("MapR", ts.X, s, fn)}, ts.Body.List...)
			} else if key, isID := ts.Key.(*ast.Ident); isID && key.Name != "_" && ts.Tok == token.DEFINE {
				probeIx := &ast.IndexExpr{X: ts.X, Index: ast.NewIdent(key.Name)}
				if sel, ok := ast.Unparen(ts.X).(*ast.SelectorExpr); ok && rw.isSlice(ts.X) && addressable(ts.X) {
					t := rw.info.TypeOf(sel.X)
					if p, ok := t.(*types.Pointer); ok {
						t = p.Elem()
					}
					if n, ok := types.Unalias(t).(*types.Named); ok && elemFields[n.Obj().Name()] == sel.Sel.Name {
						ts.Body.List = append([]ast.Stmt{rw.varProbe("VarR", probeIx, s, fn)}, ts.Body.List...)
					}
				}
			} else if rw.sharedSliceExpr(ts.X, s) {
				out = append(out, rw.varProbe("VarR", ts.X, s, fn))
			}
			if rw.fieldProbes {
				hdr = append(hdr, ts.X)
			}
		}
		for _, m := range rw.mapReads(s, hdr, skip) {
			out = append(out, rw.probe("MapR", m, s, fn))
		}
		for _, id := range rw.sliceReads(s, hdr) {
			out = append(out, rw.varProbe("VarR", id, s, fn))
		}
		if rw.fieldProbes {
			for _, sel := range rw.fieldReads(hdr, skip) {
				out = append(out, rw.varProbe("VarR", sel, s, fn))
				rw.stats["fieldr"]++
			}
		}
		out = append(out, s)
	}
	return out
}

func (rw *rewriter) withYields(list []ast.Stmt) []ast.Stmt {
	out := make([]ast.Stmt, 0, 2*len(list))
	for _, s := range list {
		switch s.(type) {
		case *ast.DeclStmt, *ast.LabeledStmt, *ast.EmptyStmt:
		default:
			if s.Pos().IsValid() {
				out = append(out, &ast.ExprStmt{X: call(rw.rt("Yield"), rw.site(s))})
			}
		}
		out = append(out, s)
	}
	return out
}

func (rw *rewriter) rangeChan(rs *ast.RangeStmt) ast.Stmt {
	okID := ast.NewIdent("simrtOK")
	var lhs ast.Expr = ast.NewIdent("_")
	tok := token.DEFINE
	var pre []ast.Stmt
	if rs.Key != nil {
		lhs = rs.Key
		if rs.Tok == token.ASSIGN {
			tok = token.ASSIGN
			pre = append(pre, &ast.DeclStmt{Decl: &ast.GenDecl{Tok: token.VAR, Specs: []ast.Spec{
				&ast.ValueSpec{Names: []*ast.Ident{okID}, Type: ast.NewIdent("bool")}}}})
		}
	}
	recv := &ast.AssignStmt{
		Lhs: []ast.Expr{lhs, okID}, Tok: tok,
		Rhs: []ast.Expr{call(rw.rt("Recv2"), rs.X, rw.site(rs))},
	}
	brk := &ast.IfStmt{Cond: &ast.UnaryExpr{Op: token.NOT, X: okID},
		Body: &ast.BlockStmt{List: []ast.Stmt{&ast.BranchStmt{Tok: token.BREAK}}}}
	body := &ast.BlockStmt{List: append([]ast.Stmt{recv, brk}, rs.Body.List...)}
	loop := &ast.ForStmt{Body: body}
	if len(pre) == 0 {
		return loop
	}
	return &ast.BlockStmt{List: append(pre, loop)}
}

func (rw *rewriter) selectStmt(ss *ast.SelectStmt) ast.Stmt {
	var (
		cases      []ast.Expr
		clauses    []ast.Stmt
		hasDefault bool
		defBody    []ast.Stmt
	)
	idx, rv, ok := ast.NewIdent("simrtIdx"), ast.NewIdent("simrtVal"), ast.NewIdent("simrtOK")
	caseType := rw.rt("Case")
	kv := func(k string, v ast.Expr) ast.Expr { return &ast.KeyValueExpr{Key: ast.NewIdent(k), Value: v} }
	i := 0
	for _, cl := range ss.Body.List {
		cc := cl.(*ast.CommClause)
		if cc.Comm == nil {
			hasDefault = true
			defBody = cc.Body
			continue
		}
		var body []ast.Stmt
		switch s := cc.Comm.(type) {
		case *ast.SendStmt:
			cases = append(cases, &ast.CompositeLit{Elts: []ast.Expr{
				kv("Send", ast.NewIdent("true")), kv("Chan", s.Chan), kv("Val", s.Value)}})
		case *ast.ExprStmt:
			ue := ast.Unparen(s.X).(*ast.UnaryExpr)
			cases = append(cases, &ast.CompositeLit{Elts: []ast.Expr{kv("Chan", ue.X)}})
		case *ast.AssignStmt:
			ue := ast.Unparen(s.Rhs[0]).(*ast.UnaryExpr)
			cases = append(cases, &ast.CompositeLit{Elts: []ast.Expr{kv("Chan", ue.X)}})
			if s.Tok == token.DEFINE {
				rhs := []ast.Expr{call(rw.rt("Conv"), ue.X, rv)}
				if len(s.Lhs) == 2 {
					rhs = append(rhs, ok)
				}
				body = append(body, &ast.AssignStmt{Lhs: s.Lhs, Tok: token.DEFINE, Rhs: rhs})
				// A defined variable may be unused only if it is "_".
			} else {
				if id, isID := s.Lhs[0].(*ast.Ident); !isID || id.Name != "_" {
					body = append(body, &ast.ExprStmt{X: call(rw.rt("Assign"),
						&ast.UnaryExpr{Op: token.AND, X: s.Lhs[0]}, rv)})
				}
				if len(s.Lhs) == 2 {
					body = append(body, &ast.AssignStmt{Lhs: []ast.Expr{s.Lhs[1]}, Tok: token.ASSIGN, Rhs: []ast.Expr{ok}})
				}
			}
		}
		body = append(body, cc.Body...)
		clauses = append(clauses, &ast.CaseClause{
			List: []ast.Expr{&ast.BasicLit{Kind: token.INT, Value: strconv.Itoa(i)}},
			Body: body,
		})
		i++
	}
	if hasDefault {
		clauses = append(clauses, &ast.CaseClause{Body: defBody})
	}
	def := "false"
	if hasDefault {
		def = "true"
	}
	sel := &ast.AssignStmt{
		Lhs: []ast.Expr{idx, rv, ok}, Tok: token.DEFINE,
		Rhs: []ast.Expr{call(rw.rt("SelectStmt"),
			&ast.CompositeLit{Type: &ast.ArrayType{Elt: caseType}, Elts: cases},
			ast.NewIdent(def), rw.site(ss))},
	}
	use := &ast.AssignStmt{Lhs: []ast.Expr{ast.NewIdent("_"), ast.NewIdent("_")}, Tok: token.ASSIGN, Rhs: []ast.Expr{rv, ok}}
	sw := &ast.SwitchStmt{Tag: idx, Body: &ast.BlockStmt{List: clauses}}
	return &ast.BlockStmt{List: []ast.Stmt{sel, use, sw}}
}

// usesImport reports whether the (default-named) import is still referenced.
func (rw *rewriter) usesImport(name string) (used bool) {
	ast.Inspect(rw.file, func(n ast.Node) bool {
		if sel, ok := n.(*ast.SelectorExpr); ok {
			if id, ok := sel.X.(*ast.Ident); ok && id.Name == name {
				if _, isPkg := rw.info.Uses[id].(*types.PkgName); isPkg {
					used = true
				}
			}
		}
		return !used
	})
	return
}
