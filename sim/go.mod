module verif/sim

go 1.26.0

require (
	github.com/anishathalye/porcupine v1.3.0
	github.com/ohler55/slip v0.0.0
	golang.org/x/tools v0.50.0
)

require (
	github.com/ohler55/ojg v1.27.0 // indirect
	golang.org/x/mod v0.41.0 // indirect
	golang.org/x/sync v0.23.0 // indirect
	golang.org/x/sys v0.48.0 // indirect
	golang.org/x/term v0.34.0 // indirect
	golang.org/x/text v0.28.0 // indirect
)

replace github.com/ohler55/slip => /repo
