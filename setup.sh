#!/bin/bash
# Builds the framework from files on disk only (offline) and warms the build cache.
set -e -o pipefail
export GOFLAGS=-mod=mod GOPROXY=off GOSUMDB=off GOTOOLCHAIN=local PATH=/opt/veriftools/go1.26.8/bin:$PATH
cd "$(dirname "$0")/sim"
mkdir -p bin
go build -o bin/check ./cmd/check
W=$(mktemp -d /tmp/verif-setup-XXXX)
trap 'rm -rf $W' EXIT
./build.sh $W
$W/verif-sim smoke 1 >/dev/null
# self-tests on a sample: conformance of the channel/timer/mutex model and
# determinism across processes, chunkings and GOMAXPROCS (exit 2 on failure)
../check selftest --cases 12 | tail -7
echo "setup ok"
